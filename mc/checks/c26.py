"""C26 A rejected transformation leaves the code unchanged.

Fault enumeration: every concrete transformation class (found by
introspection) x every node / consecutive node list of every seed program x
the option combinations the class documents or reads, executed on the real
PSyclone code; plus, for every attempt that gets past its first validation,
one re-execution per nested validate/apply/SymbolTable.merge/rename_symbol
call with that call replaced by a refusal.  Oracle: whenever a
TransformationError propagates out of apply(), the fingerprint (written
code + every symbol table + node skeleton) equals the one taken before.
"""
import os

from mc import c26_core as core
from mc import c26_seeds as seeds

ID = "C26"
LEVEL = "fault_enumeration"
EXHAUSTIVE = True
CASE_TIMEOUT = 3600
RULE = (
    "work item = (seed program, transformation class, constructor variant); "
    "inside it every target (each statement-level node, one expression node "
    "per structural context (class, position, parent and grand-parent class, "
    "child classes), each consecutive child list of each Schedule/"
    "Container, a fixed set of ill-formed lists and non-node objects; ordered "
    "node pairs for two-node transformations) x every option descriptor (no "
    "options argument, {}, non-dict, unknown key, every (key,value) of the "
    "per-key value table for every option key found in the class' docstrings "
    "or code, key pairs, key triples and all keys with their first value) is "
    "attempted with the real apply(); a target that is refused with {} for "
    "the same reason (raise site) as a non-node object gets only the four "
    "base descriptors.  Every attempt that executed nested validate/apply/"
    "SymbolTable.merge/rename_symbol calls is re-run once per such call with "
    "that call raising TransformationError (SymbolError for symbol-table "
    "calls), once per distinct (target, nested call sequence, outcome) "
    "[thorough: and option-key set].  evaluations = apply() executions "
    "without injection.  An execution (with or without injection) is "
    "non-trivial iff a TransformationError propagated out of apply() (the "
    "property's antecedent); distinct = distinct (seed, transformation, ctor, "
    "raise site or injected call site, target node classes, option "
    "descriptor) tuples among those")
ASSUMPTIONS = [
    "judged fingerprint, language-level seeds: FortranWriter text + view(), "
    "argument list, tags and default visibility of every symbol table + "
    "class/annotation skeleton and view() of the tree",
    "judged fingerprint, PSy-layer seeds (weaker reading): statement-level "
    "class/annotation skeleton, kernel flags (modified, module_inline), "
    "FortranWriter text + symbol tables of every materialised kernel PSyIR, "
    "and the psy.gen text; symbol tables / bound expressions of the DSL tree "
    "are NOT judged by themselves because they are populated lazily by "
    "read-only queries (dependency analysis) without any effect on the "
    "generated code",
    "'nothing changed' is decided by an exact snapshot (C pickler over the "
    "whole object graph below the root, fparser nodes by name); only when "
    "the snapshot differs is the judged fingerprint computed, so the "
    "verdict never depends on the snapshot being minimal",
    "a tree whose snapshot is unchanged after an attempt is reused for the "
    "next attempt of the same work item (otherwise it is rebuilt: Node.copy() "
    "of a pristine parse checked against the parsed seed's snapshot, or "
    "PSyFactory.create()); every violation seen on a reused tree is first "
    "reproduced on a freshly built seed",
    "psy.gen mutates the PSy layer, so for refused attempts that left the "
    "snapshot unchanged its text is compared once per work item on a fresh "
    "build on which all of them were re-executed in order (and per attempt "
    "if that comparison fails)",
    "an injected refusal replaces a nested validate()/apply() call of a "
    "transformation class (or SymbolTable.merge/rename_symbol) - call sites "
    "at which the real callee can refuse; it is judged only if the injected "
    "error itself (possibly wrapped) propagates out of apply(); violations "
    "seen only under injection carry an 'inject:' signature naming the "
    "outermost nested call site and what changed",
    "only TransformationError is judged; other exception types are counted",
]

QUICK_INJECT_CAP = 24
THOROUGH_INJECT_CAP = 120
PAIR_CAP = {"quick": 150, "thorough": 900}

# transformations that are only attempted on some seed kinds in the quick tier
# (everything x everything in the thorough tier)
_STATE = {}


def _tier_seeds(tier):
    names = []
    for name, info in seeds.FORTRAN.items():
        if tier in info["tiers"]:
            names.append(("f", name))
    for name, info in seeds.PSY.items():
        if tier in info["tiers"]:
            names.append(("p", name))
    return names


def bounds(tier):
    core_names = _trans_names()
    return {
        "transformation_classes": len(core_names),
        "fortran_seeds": [n for k, n in _tier_seeds(tier) if k == "f"],
        "psy_seeds": [n for k, n in _tier_seeds(tier) if k == "p"],
        "inject_cap_per_attempt": (QUICK_INJECT_CAP if tier == "quick"
                                   else THOROUGH_INJECT_CAP),
        "pair_cap": PAIR_CAP[tier],
        "max_siblings_all_sublists": core.MAX_SIBLINGS_FULL,
        "option_values": core.KEY_VALUES,
        "constructor_variants": core.CTOR_VARIANTS,
    }


def _trans_names():
    _setup_env()
    return core.concrete_transformation_names()


def _setup_env():
    os.environ.setdefault("PSYCLONE_CONFIG",
                          os.path.join(core.REPO, "config", "psyclone.cfg"))


def cases(tier):
    import re
    # C26_ONLY (development only): regular expression restricting the work
    # items by key; never set for registered runs
    only = re.compile(os.environ["C26_ONLY"]) if os.environ.get("C26_ONLY") \
        else None
    for case in _all_cases(tier):
        if only is None or only.search(case["key"]):
            yield case


def _all_cases(tier):
    names = _trans_names()
    for kind, seed in _tier_seeds(tier):
        info = seeds.FORTRAN[seed] if kind == "f" else seeds.PSY[seed]
        for name in names:
            if tier == "quick" and info.get("quick_only") and \
                    name not in info["quick_only"]:
                continue
            variants = core.CTOR_VARIANTS.get(name, [{}])
            if name in seeds.SEED_CTOR:
                variants = seeds.SEED_CTOR[name].get(seed)
                if variants is None:
                    continue
            for vidx, ctor in enumerate(variants):
                yield {"key": f"{seed}:{name}:{vidx}", "kind": kind,
                       "seed": seed, "trans": name, "ctor": ctor,
                       "tier": tier}


# ---------------------------------------------------------------------------
# worker side
# ---------------------------------------------------------------------------
def prepare(tier):  # pylint: disable=unused-argument
    """Parent side: one scratch directory for the whole run (transformations
    such as the extraction ones write driver files into the current working
    directory); removed in finish() and at interpreter exit."""
    import atexit
    from mc.runner import scratch_dir
    path = scratch_dir("c26")
    os.environ["C26_SCRATCH"] = path
    atexit.register(_remove_scratch, path, os.getpid())


def _remove_scratch(path, pid):
    import shutil
    if os.getpid() == pid:
        shutil.rmtree(path, ignore_errors=True)


def init_worker(tier):
    _setup_env()
    import sys
    sys.setrecursionlimit(5000)
    import psyclone  # noqa: F401  pylint: disable=unused-import
    from psyclone.configuration import Config
    core.install()
    base = os.environ.get("C26_SCRATCH")
    if not base:
        # stand-alone use (replay, development): private scratch directory
        prepare(tier)
        base = os.environ["C26_SCRATCH"]
    work = os.path.join(base, f"w{os.getpid()}")
    os.makedirs(work, exist_ok=True)
    os.chdir(work)
    _STATE["workdir"] = work
    Config.get().kernel_output_dir = work
    _STATE["tier"] = tier
    _STATE["seeds"] = {}


def _clean_workdir():
    work = _STATE.get("workdir")
    if work and os.path.isdir(work):
        for name in os.listdir(work):
            path = os.path.join(work, name)
            if os.path.isfile(path):
                os.remove(path)


class SeedState:
    """Per-process cache for one seed: parse results, pristine fingerprint,
    targets."""

    def __init__(self, kind, name):
        self.kind = kind
        self.name = name
        self.info = seeds.FORTRAN[name] if kind == "f" else seeds.PSY[name]
        self.parse_info = None
        self.pristine = None
        self.pristine_dump = None
        self.pristine_snap = None
        self.master = None
        self.copy_ok = True
        self.pristine_gen = None
        self.pristine_kern = {}
        self.targets = None
        self.pairs = {}
        self.builds = 0

    # -- building ----------------------------------------------------------
    def build(self):
        from psyclone.configuration import Config
        self.builds += 1
        Config.get().api = self.info["api"]
        psy = None
        if self.kind == "f" and self.master is not None and self.copy_ok:
            # Node.copy() of a never-used master tree is ~8x cheaper than
            # re-parsing; its exact state dump is compared with the parsed
            # seed's below, and parsing is used whenever they differ.
            root = self.master.copy()
            snap = core.snapshot(root)
            if snap != self.pristine_snap and \
                    core.state_dump(root) != self.pristine_dump:
                self.copy_ok = False
                return self.build()
            return {"root": root, "psy": None, "dirty": False, "uses": 0,
                    "snap0": snap}
        if self.kind == "f":
            from psyclone.psyir.frontend.fortran import FortranReader
            if self.info.get("file"):
                root = FortranReader().psyir_from_file(
                    os.path.join(seeds.TEST_FILES, self.info["file"]))
            else:
                root = FortranReader().psyir_from_source(self.info["src"])
        else:
            from psyclone.parse.algorithm import parse
            from psyclone.psyGen import PSyFactory
            if self.parse_info is None:
                path = os.path.join(seeds.TEST_FILES, self.info["alg"])
                _, self.parse_info = parse(path, api=self.info["api"])
            psy = PSyFactory(self.info["api"],
                             distributed_memory=self.info["dm"]
                             ).create(self.parse_info)
            _ = psy.invokes.invoke_list
            root = psy.container
        for tname, ctor, tdesc, odesc in self.info["pre"]:
            trans = core.make_transformation(tname, ctor, root)
            has_opt, opts = core.decode_options(odesc)
            tdescs = tdesc if isinstance(tdesc, list) else [tdesc]
            args = [core.resolve_target(root, d) for d in tdescs]
            import contextlib
            import io
            with contextlib.redirect_stdout(io.StringIO()):
                if has_opt:
                    trans.apply(*args, opts)
                else:
                    trans.apply(*args)
        inst = {"root": root, "psy": psy, "dirty": False, "uses": 0}
        inst["snap0"] = core.snapshot(root)
        if self.pristine is None:
            self.pristine = self.fingerprint(inst)
            self.pristine_dump = core.state_dump(root)
            self.pristine_snap = inst["snap0"]
            if self.kind == "f":
                self.master = inst["root"]
                return self.build()
        elif inst["snap0"] != self.pristine_snap:
            dump = core.state_dump(root)
            if dump != self.pristine_dump:
                raise RuntimeError(
                    f"seed {self.name}: rebuilt seed differs from the first "
                    f"build (" + core.diff_excerpt(
                        {"state": self.pristine_dump}, {"state": dump}) + ")")
        return inst

    def fingerprint(self, inst):
        if self.kind == "f":
            return core.fingerprint_psyir(inst["root"])
        return core.fingerprint_psy_fast(inst["root"])

    def gen_text(self, inst):
        """psy.gen text (mutates the instance: it is marked dirty)."""
        inst["dirty"] = True
        # transformed kernels are written to the kernel output directory under
        # a name that depends on the files already there: start from an
        # empty directory so that the text is a function of the tree only
        _clean_workdir()
        try:
            return str(inst["psy"].gen)
        except Exception as err:  # pylint: disable=broad-except
            return f"<psy.gen raised {type(err).__name__}: {err}>"

    def get_pristine_gen(self):
        if self.pristine_gen is None:
            self.pristine_gen = self.gen_text(self.build())
        return self.pristine_gen

    def pristine_kernel(self, idx):
        """Fingerprint of the untouched PSyIR of coded kernel number idx."""
        if idx not in self.pristine_kern:
            from psyclone.psyGen import CodedKern
            inst = self.build()
            kern = inst["root"].walk(CodedKern)[idx]
            try:
                kern.get_kernel_schedule()
                self.pristine_kern[idx] = \
                    core.loaded_kernel_schedules(inst["root"])[idx]
            except Exception as err:  # pylint: disable=broad-except
                self.pristine_kern[idx] = {"code": f"<{type(err).__name__}>"}
        return self.pristine_kern[idx]

    # -- targets -----------------------------------------------------------
    def get_targets(self):
        if self.targets is None:
            inst = self.build()
            # expression-level nodes: one representative per structural
            # context in both tiers (statement-level nodes: all)
            single, lists, odd = core.enumerate_targets(
                inst["root"], dedupe_expressions=True)
            self.targets = [[t] for t in single + lists + odd]
        return self.targets

    @property
    def domain(self):
        if self.kind == "f":
            return "generic"
        return {"dynamo0.3": "lfric", "gocean1.0": "gocean"}[self.info["api"]]

    def get_pairs(self, tier):
        if tier not in self.pairs:
            inst = self.build()
            pairs, capped = core.enumerate_pairs(inst["root"], PAIR_CAP[tier])
            self.pairs[tier] = ([list(p) for p in pairs], capped)
        return self.pairs[tier]


def _seed_state(kind, name):
    key = (kind, name)
    if key not in _STATE["seeds"]:
        _STATE["seeds"][key] = SeedState(kind, name)
    return _STATE["seeds"][key]


INDEX_VALUES = [0, 1, -1, 5, "x"]


def _targets_for(sst, cls, tier):
    """List of target tuples (lists of descriptors) for this class' apply()
    signature."""
    import inspect
    params = [p for p in inspect.signature(cls.apply).parameters
              if p not in ("self", "options")]
    if len(params) <= 1:
        return sst.get_targets(), False
    if params[1] == "index":
        out = []
        for tgt in sst.get_targets():
            for val in INDEX_VALUES:
                out.append([tgt[0], {"t": "py", "v": val}])
        return out, False
    return sst.get_pairs(tier)


class Runner:
    """Executes the attempts of one work item."""

    def __init__(self, case):
        self.case = case
        self.sst = _seed_state(case["kind"], case["seed"])
        self.inst = None
        self.trans = case["trans"]
        self.ctor = case["ctor"]
        self.viol = []
        self.classes = {}
        self.sites = {}
        self.distinct = set()
        self.evals = 0
        self.inject_runs = 0
        self.refused = []       # (targets, odesc, inject) refused + unchanged
        self.caps = {}
        self.sample = None
        self.sample_rank = -1
        self.wrong_kind = set()
        self.reused = 0

    # -- helpers -----------------------------------------------------------
    def _count(self, name, num=1):
        self.classes[name] = self.classes.get(name, 0) + num

    def instance(self, pristine=False):
        """The tree to run the next attempt on; pristine=True refuses a tree
        whose reference snapshot was moved (lazily materialised state)."""
        if self.inst is None or self.inst["dirty"] or \
                (pristine and self.inst.get("rebased")):
            self.inst = self.sst.build()
        return self.inst

    def execute(self, inst, tdescs, odesc, inject):
        """One apply() on inst; returns (res, changed components, before,
        after).  The cheap exact state dump decides "nothing changed"; only
        when it differs and a TransformationError propagated is the judged
        fingerprint computed and compared with the pristine one."""
        args = [core.resolve_target(inst["root"], d) for d in tdescs]
        trans = core.make_transformation(self.trans, self.ctor, inst["root"])
        res = core.run_apply(trans, args, odesc, inject)
        res["hidden"] = False
        snap1 = core.snapshot(inst["root"])
        if snap1 == inst["snap0"]:
            return res, [], None, None
        inst["dirty"] = True
        if res["outcome"] != "TE":
            return res, ["state"], None, None
        before = dict(self.sst.pristine)
        after = self.sst.fingerprint(inst)
        if self.sst.kind == "p":
            lazy = before.pop("lazy") != after.pop("lazy")
            for idx, kfp in core.loaded_kernel_schedules(inst["root"]).items():
                ref = self.sst.pristine_kernel(idx)
                before[f"kernel{idx}"] = ref.get("code", "") + "\n" + \
                    ref.get("symtab", "")
                after[f"kernel{idx}"] = kfp["code"] + "\n" + kfp["symtab"]
            if not core.changed_components(before, after):
                # structure and kernels unchanged, only lazily materialised
                # state differs: the generated code decides.  It is compared
                # in the gen pass of this work item (this attempt is replayed
                # there with all other refused ones); the tree stays in use
                # with its new snapshot as the reference.
                if lazy:
                    self._count("psy:lazily-materialised-state-only")
                inst["snap0"] = snap1
                inst["rebased"] = True
                inst["dirty"] = False
        changed = core.changed_components(before, after)
        if not changed:
            res["hidden"] = True
            hid = self.caps.setdefault("hidden_state_only", {})
            key = f"{self.trans}@{res['site']}"
            if key not in hid:
                hid[key] = core.diff_excerpt(
                    {"state": self.sst.pristine_dump},
                    {"state": core.state_dump(inst["root"])}, 6)[:300]
        return res, changed, before, after

    # -- one attempt (plain or injected) -------------------------------------
    def attempt(self, tdescs, odesc, inject=None, expect_label=None):
        # injected re-executions always start from the pristine state so
        # that they take the same path as the execution that was recorded
        inst = self.instance(pristine=inject is not None)
        start_rebased = bool(inst.get("rebased"))
        fresh = inst["uses"] == 0
        inst["uses"] += 1
        tcls = "/".join(core.target_classes(inst["root"], d) for d in tdescs)
        res, changed, before, after = self.execute(inst, tdescs, odesc,
                                                   inject)
        res["changed"] = changed
        res["start_rebased"] = start_rebased
        if inject is not None:
            self.inject_runs += 1
            if not res["injected"]:
                raise RuntimeError(
                    f"{self.case['key']}: injection index {inject} was not "
                    f"reached on re-execution ({tdescs}, {odesc})")
            label = res["calls"][inject]["label"]
            if label != expect_label:
                raise RuntimeError(
                    f"{self.case['key']}: nested call {inject} is "
                    f"{label}, expected {expect_label}")
        else:
            self.evals += 1
        outcome = res["outcome"]
        mode = "inject" if inject is not None else "plain"
        if outcome == "TE" and inject is not None and \
                not core.carries_injection(res["err"]):
            # the injected refusal was swallowed by the code under test and a
            # different refusal propagated later: the state it was raised
            # from need not be reachable without injection - counted only
            self._count("inject:swallowed-then-other-refusal"
                        + ("-changed" if changed else ""))
            if res["fullsite"]:
                self.sites[res["fullsite"]] = \
                    self.sites.get(res["fullsite"], 0) + 1
            return res
        if outcome == "TE":
            where = res["site"]
            if inject is not None:
                where = self._inject_label(res, inject)
            if res["fullsite"]:
                self.sites[res["fullsite"]] = \
                    self.sites.get(res["fullsite"], 0) + 1
            self.distinct.add((where, tcls, core.options_key(odesc)))
            if changed:
                self._count(f"{mode}:refused-CHANGED")
                if not fresh:
                    self._confirm(tdescs, odesc, inject, changed)
                self._violation(tdescs, odesc, inject, res, where, changed,
                                before, after)
            else:
                self._count(f"{mode}:refused-unchanged" +
                            ("(hidden-state-differs)" if res["hidden"] else ""))
                self.refused.append((tdescs, odesc, inject))
                if inject is None and tdescs[0]["t"] != "py" and \
                        res["site"] not in (None, "injected"):
                    # sample: prefer a refusal that is not the "wrong kind
                    # of target" one
                    rank = 0 if res["site"] in self.wrong_kind else 1
                    if self.sample is None or rank > self.sample_rank:
                        self.sample_rank = rank
                        self.sample = {
                            "seed": self.sst.name,
                            "transformation": self.trans,
                            "ctor": self.ctor,
                            "target": [core.target_key(d) for d in tdescs],
                            "target_classes": tcls,
                            "options": odesc, "refused_at": res["site"],
                            "nested_calls": [c["label"]
                                             for c in res["calls"]][:8],
                            "message": self._msg(res)}
        elif outcome == "ok":
            self._count(f"{mode}:applied" if changed
                        else f"{mode}:accepted-no-change")
        else:
            self._count(f"{mode}:other-exception-" +
                        ("changed" if changed else "unchanged"))
            key = f"{outcome}@{res['site']}"
            exc = self.caps.setdefault("other_exceptions", {})
            exc[key] = exc.get(key, 0) + 1
        return res

    @staticmethod
    def _inject_label(res, inject):
        """Signature label of an injected refusal: the outermost nested call
        (made directly by the transformation under test) inside which the
        refusal was raised, first vs. later occurrence of that call site."""
        call = res["calls"][res["calls"][inject]["top"]]
        return f"{call['label']}#{'0' if call['n'] == 0 else 'n'}"

    @staticmethod
    def _msg(res):
        try:
            return str(res["err"].value)[:240]
        except Exception as err:  # pylint: disable=broad-except
            return f"<message raised {type(err).__name__}>"

    def _confirm(self, tdescs, odesc, inject, changed):
        """A violation seen on a reused tree must reproduce on a fresh one."""
        inst = self.sst.build()
        res, changed2, _, _ = self.execute(inst, tdescs, odesc, inject)
        if res["outcome"] != "TE" or changed2 != changed:
            raise RuntimeError(
                f"{self.case['key']}: violation on a reused tree did not "
                f"reproduce on a fresh seed ({tdescs}, {odesc}, {inject}): "
                f"{res['outcome']} {changed2} vs {changed}")

    def _violation(self, tdescs, odesc, inject, res, where, changed, before,
                   after):
        mode = "inject" if inject is not None else "refusal"
        what = core.change_digest(before, after)
        if inject is not None:
            sig = f"inject:{self.trans}:{where}:{what}"
        else:
            sig = f"refusal:{self.trans}:{what}"
        tkey = "/".join(core.target_key(d) for d in tdescs)
        key = (f"{self.case['key']}:{tkey}:{core.options_key(odesc)}"
               + (f":inj{inject}" if inject is not None else ""))
        msg = (f"{self.trans}({self.ctor or ''}).apply on seed "
               f"'{self.sst.name}' target {tkey} options {odesc} "
               + (f"with nested call #{inject} "
                  f"({res['calls'][inject]['label']}, inside {where}) "
                  f"replaced by a refusal " if inject is not None else "")
               + f"raised TransformationError at {res['site']} "
               f"('{self._msg(res)[:120]}') but the fingerprint changed in "
               f"{changed}: {core.diff_excerpt(before, after)[:600]}")
        self.viol.append({
            "key": key, "sig": sig, "msg": msg,
            "case": {"kind": self.case["kind"], "seed": self.sst.name,
                     "trans": self.trans, "ctor": self.ctor,
                     "targets": tdescs, "options": odesc, "inject": inject,
                     "label": (res["calls"][inject]["label"]
                               if inject is not None else None)}})

    # -- injection loop for one attempt ------------------------------------
    def inject_all(self, tdescs, odesc, res, cap):
        if res.get("start_rebased"):
            # the recorded execution started from a tree with lazily
            # materialised state: record the nested calls again from the
            # pristine state (not counted, tree discarded)
            inst = self.sst.build()
            args = [core.resolve_target(inst["root"], d) for d in tdescs]
            trans = core.make_transformation(self.trans, self.ctor,
                                             inst["root"])
            res = core.run_apply(trans, args, odesc, None)
        calls = res["calls"]
        todo = []
        for idx, call in enumerate(calls):
            if res["outcome"] == "TE" and call.get("err") is res.get("err"):
                # this very call refused in the plain run with the state it
                # was entered in: the plain run already is that experiment
                continue
            todo.append((idx, call["label"]))
        if len(todo) > cap:
            self.caps["inject_cap_hits"] = \
                self.caps.get("inject_cap_hits", 0) + 1
            todo = todo[:cap]
        for idx, label in todo:
            self.attempt(tdescs, odesc, inject=idx, expect_label=label)

    # -- pass 2 for PSy layers: generated code -------------------------------
    def gen_pass(self):
        if self.sst.kind != "p" or not self.refused:
            return
        ref = self.sst.get_pristine_gen()
        inst = self.sst.build()
        for tdescs, odesc, inject in self.refused:
            args = [core.resolve_target(inst["root"], d) for d in tdescs]
            trans = core.make_transformation(self.trans, self.ctor,
                                             inst["root"])
            core.run_apply(trans, args, odesc, inject)
        text = self.sst.gen_text(inst)
        self._count("gen-pass:refused-attempts-covered", len(self.refused))
        if text == ref:
            return
        # attribute: every refused attempt individually on a fresh build
        found = False
        for tdescs, odesc, inject in self.refused:
            inst = self.sst.build()
            args = [core.resolve_target(inst["root"], d) for d in tdescs]
            trans = core.make_transformation(self.trans, self.ctor,
                                             inst["root"])
            res = core.run_apply(trans, args, odesc, inject)
            text = self.sst.gen_text(inst)
            if text != ref and res["outcome"] == "TE":
                found = True
                where = res["site"]
                if inject is not None:
                    where = self._inject_label(res, inject)
                self._count("gen:refused-CHANGED")
                self._violation(tdescs, odesc, inject, res, where,
                                ["gen"], {"gen": ref}, {"gen": text})
        if not found:
            raise RuntimeError(
                f"{self.case['key']}: psy.gen text differs after the refused "
                f"attempts but no single attempt reproduces it")

    # -- the whole work item -------------------------------------------------
    def run(self):
        tier = self.case["tier"]
        cls = core.class_by_name(self.trans)
        targets, pcap = _targets_for(self.sst, cls, tier)
        if pcap:
            self.caps["pair_cap_hits"] = 1
        options, ocap = core.option_space(cls, tier)
        tdom = core.transformation_domain(cls)
        if tier == "quick" and tdom != "generic" and tdom != self.sst.domain:
            # quick tier: an API-specific transformation on a seed of another
            # API is only attempted with the two base option descriptors
            options, ocap = options[:2], False
        if ocap:
            self.caps["option_pair_cap_hits"] = 1
        cap = QUICK_INJECT_CAP if tier == "quick" else THOROUGH_INJECT_CAP
        # non-node targets first: the raise sites that refuse them are the
        # "wrong kind of target" refusals of this transformation
        targets = sorted(targets, key=lambda t: 0 if all(
            d["t"] == "py" for d in t) else 1)
        wrong_kind = self.wrong_kind
        for tdescs in targets:
            shapes = set()
            is_py = all(d["t"] == "py" for d in tdescs)
            for onum, odesc in enumerate(options):
                res = self.attempt(tdescs, odesc)
                changed = res.get("changed")
                if onum == 1 and res["outcome"] == "TE" and not changed:
                    # the {} attempt
                    if is_py:
                        wrong_kind.add(res["site"])
                    elif res["site"] in wrong_kind and \
                            all(c.get("err") is res["err"]
                                for c in res["calls"]):
                        # a target refused for the same reason as a non-node
                        # object ("wrong kind of target") gets only the four
                        # base option descriptors
                        rest = len(options) - 4
                        if rest > 0:
                            self._count("pruned:option-sets-skipped-on-"
                                        "wrong-kind-target", rest)
                            skip_rest = True
                        else:
                            skip_rest = False
                        res["skip_rest"] = skip_rest
                if res["calls"]:
                    # one injection campaign per distinct (target, nested
                    # call sequence, outcome, raise site); the thorough tier
                    # also distinguishes the set of option keys passed
                    shape = (tuple(c["label"] for c in res["calls"]),
                             res["outcome"], res["site"],
                             tuple(sorted(odesc)) if tier != "quick" else ())
                    if shape in shapes:
                        self._count("inject:skipped-same-call-sequence")
                    else:
                        shapes.add(shape)
                        self.inject_all(tdescs, odesc, res, cap)
                if onum == 1 and res.get("skip_rest"):
                    skipping = True
                else:
                    skipping = False
                if skipping:
                    # still run descriptors 2 and 3 (non-dict, unknown key)
                    for extra in options[2:4]:
                        self.attempt(tdescs, extra)
                    break
        self.gen_pass()
        out = {"evals": self.evals, "nontrivial": len(self.distinct),
               "classes": self.classes, "viol": self.viol,
               "extra": {"site_hits": self.sites,
                         "injected_executions": self.inject_runs,
                         "seed_builds": self.sst.builds}}
        self.sst.builds = 0
        for name, val in self.caps.items():
            out["extra"][name] = val
        if self.sample:
            out["sample"] = self.sample
        return out


def run_case(case):
    return Runner(case).run()


# ---------------------------------------------------------------------------
# parent side
# ---------------------------------------------------------------------------
def finish(tier, totals):
    global EXHAUSTIVE
    if os.environ.get("C26_SCRATCH"):
        _remove_scratch(os.environ["C26_SCRATCH"], os.getpid())
    extra = totals["extra"]
    sites = core.raise_sites()
    hit = extra.get("site_hits", {})
    all_ids = [f"{s['file']}:{s['id']}" for s in sites]
    reached = [s for s in all_ids if s in hit]
    unreached = [s for s in all_ids if s not in hit]
    caps = {k: extra.get(k, 0) for k in
            ("inject_cap_hits", "pair_cap_hits", "option_pair_cap_hits")}
    if any(caps.values()):
        EXHAUSTIVE = False
    return {
        "raise_sites_total": len(all_ids),
        "raise_sites_reached": len(reached),
        "raise_site_coverage": round(len(reached) / max(1, len(all_ids)), 4),
        "raise_sites_unreached": unreached,
        "caps_hit": caps,
    }


def replay(case):
    """Re-executes one violating attempt on a freshly built seed."""
    if "tier" not in _STATE:
        init_worker("quick")
    fake = {"key": "replay", "kind": case["kind"], "seed": case["seed"],
            "trans": case["trans"], "ctor": case["ctor"], "tier": "quick"}
    run = Runner(fake)
    res = run.attempt(case["targets"], case["options"],
                      inject=case.get("inject"),
                      expect_label=case.get("label"))
    if not run.viol and case["kind"] == "p":
        run.gen_pass()
    return {"outcome": res["outcome"], "site": res["site"],
            "nested_calls": [c["label"] for c in res["calls"]],
            "classes": run.classes, "viol": run.viol}
