"""C13 OpenACC data regions move all data the region needs.

Programs of mc.gen.c12_progs; the top-level compute statements are wrapped by
the real ACCKernelsTrans (one kernels region per statement, or one per maximal
run of statements) or ACCParallelTrans+ACCLoopTrans; every consecutive range of
the resulting top-level statements is handed to the real ACCDataTrans.  The
copyin/copyout/copy clauses are read from the text the FortranWriter prints.
The E1 interpreter then executes the program with separate device copies
(mc.c13_device.TwoStore) under exactly those data movements on every input and
the final host arrays are compared with the plain one-store run.
"""
import re

from mc.gen import c12_progs as G

ID = "C13"
LEVEL = "model_checking"
EXHAUSTIVE = True
CASE_TIMEOUT = 1800
RULE = ("programs = mc.gen.c12_progs with the C13 alphabets (every sequence of 1..2 "
        "statements over the tier's alphabet, 3 and 4 over smaller ones); compute placement = {K: each "
        "top-level statement ACCKernelsTrans accepts gets its own kernels region, "
        "KR: every maximal run of statements it accepts gets one kernels region, "
        "P: each top-level loop ACCLoopTrans accepts gets parallel+loop} (placements "
        "that give the same tree are run once); element = (program, placement, "
        "p, q) for every consecutive range of top-level statements; an element is "
        "non-trivial when ACCDataTrans accepts the range and at least one input is "
        "admissible (the two-store run is then executed on every admissible input); "
        "distinct = distinct (program, placement, p, q)")
ASSUMPTIONS = [
    "E1 (mc/fortsem) is the reference semantics; the host store is E1's cells, a "
    "device copy is a separate value vector per array (mc/c13_device.py); compute "
    "constructs run sequentially on the device copies; arrays without a device "
    "copy get the implicit whole-array copy for the construct; scalars live in one "
    "store and are never judged",
    "only final HOST ARRAYS are compared (locations undefined after the plain run "
    "are not compared); an undefined device value that steers control on the way "
    "is the same failure",
    "a data region in which a host statement and a compute construct touch the "
    "same array (at least one of them writing it) cannot be made right by any "
    "copyin/copyout/copy assignment - it needs update directives, which are "
    "outside the claim: such elements are counted as not-judged; for every judged "
    "violation the oracle's own clause assignment (from E1's device access trace: "
    "upward-exposed device reads -> in, device-written -> out, partially "
    "device-written -> in+out, no device access -> no clause) is executed too and "
    "must reproduce the host run (otherwise the harness fails)",
    "clauses are read from the '!$acc data' line printed by FortranWriter",
    "the corpus has one array per storage class: a, b, c, q intent(inout), d "
    "intent(out) (passed undefined), e intent(in), w local; only values that are "
    "DEFINED at data-region entry create a copy-in need (an array nothing has "
    "defined yet may be copyout), but an array touched on the device must be "
    "present under default(present)",
]
BLOCK = {"quick": 4, "thorough": 16}
PLACEMENTS = ("K", "KR", "P")

_TIER = "quick"
_PROGS = {}


def _programs(tier):
    if tier not in _PROGS:
        _PROGS[tier] = list(G.programs(tier, G.ALPHABETS_C13))
    return _PROGS[tier]


def bounds(tier):
    return {"alphabet_by_program_length": {str(k): list(v) for k, v in
                                           G.ALPHABETS_C13[tier].items()},
            "programs": len(_programs(tier)), "max_statements": 4,
            "placements": list(PLACEMENTS),
            "inputs": [G.input_key(i) for i in G.INPUTS], "array_extent": "0:4"}


def cases(tier):
    progs = _programs(tier)
    size = BLOCK[tier]
    for start in range(0, len(progs), size):
        yield {"key": f"blk{start:06d}", "start": start,
               "stop": min(len(progs), start + size)}


def init_worker(tier):
    global _TIER
    _TIER = tier
    _programs(tier)
    import os
    from mc import runner
    # PSyclone must never write into /verif: the workers run in a scratch
    # directory that is removed straight away (a worker killed by the pool
    # cannot clean up later); the transformations used here write no files,
    # and if one ever tried to it would fail loudly in the unlinked directory.
    scratch = runner.scratch_dir("c13")
    os.chdir(scratch)
    os.rmdir(scratch)


# ---------------------------------------------------------------------------
# the real code: compute placement, data region, clauses
# ---------------------------------------------------------------------------
def place_compute(tree, placement, classes):
    """Wrap top-level statements of routine s in compute constructs (in place).
    Returns (number of constructs created, descriptor of the resulting tree:
    two placements with the same descriptor give the same tree)."""
    from psyclone.psyir import nodes as N
    from psyclone.psyir.transformations import ACCKernelsTrans, TransformationError
    from psyclone.transformations import ACCLoopTrans, ACCParallelTrans
    routine = tree.walk(N.Routine)[0]
    made = 0
    groups = []

    def count(name):
        classes[name] = classes.get(name, 0) + 1

    if placement == "K":
        for idx in range(len(routine.children)):
            node = routine.children[idx]
            try:
                ACCKernelsTrans().apply(node)
                made += 1
                groups.append((idx,))
                count("ACCKernelsTrans:accepted")
            except TransformationError:
                count("ACCKernelsTrans:refused")
    elif placement == "KR":
        kids = list(routine.children)
        runs, cur = [], []
        for node in kids:
            try:
                ACCKernelsTrans().validate([node], {"disable_loop_check": True})
                cur.append(node)
            except TransformationError:
                if cur:
                    runs.append(cur)
                cur = []
        if cur:
            runs.append(cur)
        for run in runs:
            try:
                where = tuple(pos for pos, kid in enumerate(kids)
                              if any(kid is node for node in run))
                ACCKernelsTrans().apply(run)
                made += 1
                groups.append(where)
                count("ACCKernelsTrans(run):accepted")
            except TransformationError:
                count("ACCKernelsTrans(run):refused")
    elif placement == "P":
        for idx in range(len(routine.children)):
            node = routine.children[idx]
            if not isinstance(node, N.Loop):
                continue
            try:
                ACCLoopTrans().apply(node)
                ACCParallelTrans().apply(routine.children[idx])
                made += 1
                groups.append((idx,))
                count("ACCLoopTrans+ACCParallelTrans:accepted")
            except TransformationError:
                count("ACCLoopTrans:refused")
    else:
        raise RuntimeError(placement)
    if not made:
        return 0, ("none",)
    return made, ("parallel" if placement == "P" else "kernels", tuple(groups))


_CLAUSE = re.compile(r"\b(copyin|copyout|copy)\(([^)]*)\)")


def data_region(tree, pidx, qidx):
    """ACCDataTrans on top-level statements [p..q] of a copy of the tree.
    Returns ('ok', new tree, clauses, text line) | ('refused', message)."""
    from psyclone.psyir import nodes as N
    from psyclone.psyir.backend.fortran import FortranWriter
    from psyclone.psyir.transformations import TransformationError
    from psyclone.transformations import ACCDataTrans
    fresh = tree.copy()
    routine = fresh.walk(N.Routine)[0]
    try:
        ACCDataTrans().apply(routine.children[pidx:qidx + 1])
    except TransformationError as err:
        return ("refused", str(err.value)[:80])
    text = FortranWriter()(routine)
    lines = [ln.strip() for ln in text.split("\n")
             if ln.strip().lower().startswith("!$acc data")]
    if len(lines) != 1:
        raise RuntimeError(f"expected one '!$acc data' line:\n{text}")
    clauses = {"copyin": [], "copyout": [], "copy": []}
    for kind, names in _CLAUSE.findall(lines[0]):
        for name in names.split(","):
            clauses[kind].append(name.strip().lower())
    # cross-check with the clause nodes of the directive in the tree
    dnode = routine.walk(N.ACCDataDirective)[0]
    from psyclone.psyir.nodes import ACCCopyClause, ACCCopyInClause, \
        ACCCopyOutClause
    tree_clauses = {"copyin": [], "copyout": [], "copy": []}
    for child in dnode.children[1:]:
        kind = {ACCCopyInClause: "copyin", ACCCopyOutClause: "copyout",
                ACCCopyClause: "copy"}[type(child)]
        tree_clauses[kind] += [ref.symbol.name.lower() for ref in child.children]
    same = all(sorted(clauses[k]) == sorted(tree_clauses[k]) for k in clauses)
    return ("ok", fresh, clauses, lines[0], same)


# ---------------------------------------------------------------------------
# the oracle
# ---------------------------------------------------------------------------
def _run(tree, inp, hooks, tracer=None):
    """Run routine s with the given hooks.  The hooks are bound to the cells of
    every array of the routine - dummy arguments and the local array - on
    routine entry.  Returns ('ok', final arrays) | ('ub', message)."""
    from mc import c12_oracle as O
    from mc.fortsem import interp as I
    from psyclone.psyir import nodes as N
    routine = tree.walk(N.Routine)[0]
    runner = O.RegionInterp(tree, routine, -1, -1, None, hooks=hooks)
    runner.tracer = tracer
    runner.on_entry = hooks.attach
    try:
        runner.run("s", G.make_args(inp))
    except I.UB as err:
        return ("ub", str(err))
    except I.Unsupported as err:
        raise RuntimeError(f"E1 cannot run the program: {err}")
    return ("ok", {name: [cell.v for cell in hooks.arrays[name]]
                   for name in G.ARRAYS})


def run_needs(tree, inp):
    """One-store run with the device-access trace.  Returns (final arrays,
    NeedsTracer) or None if the program is inadmissible on this input."""
    from mc import c13_device as D
    needs = D.NeedsTracer(G.ARRAYS)
    res = _run(tree, inp, needs, tracer=needs.tracer)
    if res[0] != "ok":
        return None
    return res[1], needs


def run_two_store(tree, inp, clauses):
    """Returns ('ok', final arrays, faults) | ('ub', message)."""
    from mc import c13_device as D
    hooks = D.TwoStore(G.ARRAYS, clauses)
    res = _run(tree, inp, hooks)
    if res[0] != "ok":
        return res
    return ("ok", res[1], hooks.faults)


def compare(want, got):
    """First differing host array element (name, position, want, got)."""
    from mc.fortsem import interp as I
    for name in G.ARRAYS:
        for pos, (one, two) in enumerate(zip(want[name], got[name])):
            if one is I.POISON:
                continue
            if two is I.POISON or one != two:
                return (name, pos, one, two)
    return None


def check_element(tree, progkey, placement, pidx, qidx, inputs, reference,
                  stats):
    """One (program, placement, region).  Returns (viol, sample)."""
    from mc import c12_oracle as O
    from mc import c13_device as D
    from psyclone.psyir import nodes as N

    def count(name):
        stats["classes"][name] = stats["classes"].get(name, 0) + 1

    res = data_region(tree, pidx, qidx)
    if res[0] != "ok":
        count("ACCDataTrans:refused")
        return [], None
    count("ACCDataTrans:accepted")
    _ok, fresh, clauses, line, same = res
    if not same:
        count("clause-text-differs-from-clause-nodes")
    stats["nontrivial"] += 1 if inputs else 0
    # -- plain run: reference arrays + what the region needs
    need_in, need_out = set(), set()
    dev_any, host_read, host_written = set(), set(), set()
    want = {}
    for inp in inputs:
        got = run_needs(fresh, inp)
        if got is None:
            raise RuntimeError("admissible input became undefined")
        want[inp], needs = got
        if want[inp] != reference[inp]:
            raise RuntimeError(f"directives changed the one-store result of "
                               f"{progkey} {placement} [{pidx}..{qidx}]")
        need_in |= needs.need_in
        need_out |= needs.need_out
        dev_any |= needs.dev_any
        host_read |= needs.host_read
        host_written |= needs.host_written
    needed = D.needed_clauses(need_in, need_out, dev_any)
    # -- two-store run with PSyclone's clauses
    bad = []
    absent = {}          # array -> first input with a not-present fault
    for inp in inputs:
        stats["runs"] += 1
        out = run_two_store(fresh, inp, clauses)
        if out[0] == "ub":
            bad.append((inp, f"the run stops on an undefined value ({out[1]})"))
            continue
        diff = compare(want[inp], out[1])
        for _kind, name in out[2]:
            absent.setdefault(name, inp)
        if out[2]:
            bad.append((inp, f"array {out[2][0][1]} is not present on the device "
                             f"inside a default(present) construct"))
        elif diff is not None:
            name, pos, one, two = diff
            idx = _index_of(name, pos)
            bad.append((inp, f"host {name}{idx} = {O.show_val(two)} instead of "
                             f"{O.show_val(one)}"))
    sample = {"program": progkey, "placement": placement,
              "region": f"[{pidx}..{qidx}]", "directive": line,
              "needed": {k: v for k, v in needed.items() if v},
              "wrong_inputs": [G.input_key(b[0]) for b in bad]}
    if not bad:
        count("element:ok")
        return [], sample
    # -- an array shared by a host statement and a compute construct of the
    #    region (one of them writing it) needs update directives: not judged
    mixed = sorted((host_written & dev_any) | (host_read & need_out))
    if mixed:
        count("element:not-judged:array-shared-by-host-and-device-needs-update")
        sample["not_judged_shared_arrays"] = mixed
        return [], sample
    # -- self-check of the simulator: the oracle's own clause assignment must
    #    reproduce the host result
    for inp in inputs:
        out = run_two_store(fresh, inp, needed)
        if out[0] == "ub" or out[2] or compare(want[inp], out[1]) is not None:
            raise RuntimeError(
                f"the oracle's clauses {needed} do not reproduce the host run: "
                f"{progkey} {placement} [{pidx}..{qidx}] {G.input_key(inp)} {out}")
    # -- genuine: name the culprit arrays
    dnode = fresh.walk(N.ACCDataDirective)[0]
    nodes = dnode.dir_body.children
    text = "; ".join(n.debug_string().strip().replace("\n", " / ")
                     for n in nodes)
    culprits = []
    for name in G.ARRAYS:
        psy = D.clause_of(clauses, name)
        need = D.clause_of(needed, name)
        psy_in, psy_out = psy in ("copyin", "copy"), psy in ("copyout", "copy")
        n_in, n_out = need in ("copyin", "copy"), need in ("copyout", "copy")
        if psy == "none":
            # no clause = the implicit whole-array copy of each construct,
            # which is only wrong under default(present)
            harmful = name in absent
        else:
            harmful = (n_in and not psy_in) or (n_out and not psy_out) or \
                (psy_out and not n_out and (not psy_in or name in host_written))
        if harmful:
            mech = O.mechanism(nodes, name, True) if name in dev_any \
                else "host-only-array"
            culprits.append((name, psy, need, mech))
    if not culprits:
        raise RuntimeError(f"unexplained difference: {progkey} {placement} "
                           f"[{pidx}..{qidx}] {line} needed={needed} {bad}")
    count("element:violating")
    viol = []
    for name, psy, need, mech in culprits:
        inp, what = bad[0]
        if name in absent:
            inp = absent[name]
            what = (f"array {name} is not present on the device inside a "
                    f"default(present) construct")
        viol.append({
            "key": f"{progkey}|{placement}|[{pidx}..{qidx}]|{name}",
            "sig": f"{psy}-where-{need}-needed:{mech}", "group": f"{psy}->{need}",
            "msg": f"program {progkey}, compute placement {placement}, data "
                   f"region around top-level statements [{pidx}..{qidx}] = "
                   f"[{text}]: PSyclone generates '{line}'; array {name} is in "
                   f"'{psy}' but the region needs '{need}' for it ({mech}); with "
                   f"separate device memory, on input {G.input_key(inp)} {what} "
                   f"(wrong on {len(bad)} of {len(inputs)} inputs; the clause "
                   f"assignment {_show(needed)} gives the host result on all)",
            "case": {"keys": progkey.split(";"), "placement": placement,
                     "p": pidx, "q": qidx}})
    return viol, sample


def _show(clauses):
    return ", ".join(f"{k}({','.join(v)})" for k, v in clauses.items() if v) \
        or "(no clause)"


def _index_of(name, pos):
    size = G.MVAL + 1
    if name == "q":
        return f"({pos % size},{pos // size})"
    return f"({pos})"


def run_program(keys, stats, only=None):
    from mc.fortsem import transcheck
    from psyclone.psyir import nodes as N
    progkey = G.key_of(keys)
    tree = transcheck.parse(G.source(keys))
    # admissible inputs and the reference result of the untouched program
    inputs, reference = [], {}
    for inp in G.INPUTS:
        got = run_needs(tree, inp)
        if got is not None:
            inputs.append(inp)
            reference[inp] = got[0]
    stats["classes"]["inadmissible-(program,input)"] = \
        stats["classes"].get("inadmissible-(program,input)", 0) + \
        len(G.INPUTS) - len(inputs)
    viol, sample = [], None
    seen = {}
    for placement in PLACEMENTS:
        if only is not None and only[0] != placement:
            continue
        placed = tree.copy()
        made, text = place_compute(placed, placement, stats["classes"])
        if text in seen and only is None:
            stats["classes"]["placement-same-tree-as-earlier"] = \
                stats["classes"].get("placement-same-tree-as-earlier", 0) + 1
            continue
        seen[text] = placement
        stats["constructs"] += made
        num = len(placed.walk(N.Routine)[0].children)
        for pidx in range(num):
            for qidx in range(pidx, num):
                if only is not None and only[1:] != (pidx, qidx):
                    continue
                stats["evals"] += 1
                found, one = check_element(placed, progkey, placement, pidx,
                                           qidx, inputs, reference, stats)
                viol += found
                sample = one or sample
    return viol, sample


def _new_stats():
    return {"evals": 0, "nontrivial": 0, "runs": 0, "constructs": 0,
            "classes": {}}


def run_case(case):
    progs = _programs(_TIER)
    stats = _new_stats()
    viol, sample = [], None
    for keys in progs[case["start"]:case["stop"]]:
        found, one = run_program(keys, stats)
        viol += found
        sample = one or sample
    res = {"evals": stats["evals"], "nontrivial": stats["nontrivial"],
           "states": stats["nontrivial"], "transitions": stats["runs"],
           "validated": stats["nontrivial"], "classes": stats["classes"],
           "extra": {"compute_constructs_created": stats["constructs"]},
           "viol": viol}
    if sample:
        res["sample"] = sample
    return res


def replay(case):
    stats = _new_stats()
    viol, sample = run_program(tuple(case["keys"]), stats,
                               only=(case["placement"], case["p"], case["q"]))
    return {"source": G.source(tuple(case["keys"])), "element": sample,
            "viol": viol}
