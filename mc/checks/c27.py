"""C27 Module dependency sort orders dependencies first.

Exhaustive enumeration of every dependency map over small module sets; the
real ``ModuleManager.sort_modules`` is run on each one and compared with an
independent oracle (permutation + topological order when acyclic).
"""
import contextlib
import io

ID = "C27"
LEVEL = "model_checking"
EXHAUSTIVE = True
RULE = ("every dependency map {module -> subset of (modules [+self] [+one unknown "
        "name])} for the listed n is enumerated by integer index and passed to the "
        "real ModuleManager.sort_modules; a map is non-trivial when it has at least "
        "one known (non-self) dependency edge; distinct = distinct integer index")
ASSUMPTIONS = [
    "dict insertion order is fixed (a..e); any other order is a relabelling that "
    "is itself in the enumerated space",
    "only the property text is judged: completeness always, dependency order only "
    "when the known-dependency graph (self-edges included) has no cycle",
]

NAMES = ["a_mod", "b_mod", "c_mod", "d_mod", "e_mod"]
UNKNOWN = "zz_unknown_mod"
BLOCK = 1 << 11

# (tag, n, self-edges, unknown)
SPACES = {
    "quick": [("n1", 1, True, True), ("n2", 2, True, True),
              ("n3", 3, True, True), ("n4ns", 4, False, True)],
    "thorough": [("n1", 1, True, True), ("n2", 2, True, True),
                 ("n3", 3, True, True), ("n4ns", 4, False, True),
                 ("n4", 4, True, True), ("n5nsu", 5, False, False)],
}


def bounds(tier):
    return {"spaces": [dict(tag=t, modules=n, self_edges=s, unknown=u,
                            maps=1 << (n * _width(n, s, u)))
                       for t, n, s, u in SPACES[tier]]}


def _width(num, selfe, unk):
    return (num if selfe else num - 1) + (1 if unk else 0)


def cases(tier):
    for tag, num, selfe, unk in SPACES[tier]:
        total = 1 << (num * _width(num, selfe, unk))
        for start in range(0, total, BLOCK):
            yield {"key": f"{tag}:{start}", "n": num, "self": selfe, "unk": unk,
                   "start": start, "stop": min(total, start + BLOCK)}


def decode(num, selfe, unk, index):
    """Integer -> dependency map (dict of sets), deterministic."""
    width = _width(num, selfe, unk)
    deps = {}
    for mod in range(num):
        bits = (index >> (mod * width)) & ((1 << width) - 1)
        cands = [NAMES[o] for o in range(num) if selfe or o != mod]
        if unk:
            cands.append(UNKNOWN)
        deps[NAMES[mod]] = {c for pos, c in enumerate(cands) if bits >> pos & 1}
    return deps


def has_cycle(deps):
    """Independent cycle test on the known-dependency graph (DFS colouring)."""
    colour = {}

    def visit(node):
        colour[node] = 1
        for nxt in sorted(deps[node]):
            if nxt not in deps:
                continue
            if colour.get(nxt) == 1:
                return True
            if nxt not in colour and visit(nxt):
                return True
        colour[node] = 2
        return False

    return any(visit(n) for n in sorted(deps) if n not in colour)


def judge(deps, result):
    """Returns (sig, msg) or None."""
    if sorted(result) != sorted(deps):
        return ("not-a-permutation",
                f"sort_modules({_show(deps)}) returned {result}: not each listed "
                f"module exactly once")
    if not has_cycle(deps):
        pos = {m: i for i, m in enumerate(result)}
        for mod, dep in sorted(deps.items()):
            for one in sorted(dep):
                if one in deps and pos[one] > pos[mod]:
                    return ("dependency-after-dependent",
                            f"sort_modules({_show(deps)}) returned {result}: "
                            f"{mod} comes before its dependency {one}")
    return None


def _show(deps):
    return "{" + ", ".join(f"{k}: {sorted(v)}" for k, v in deps.items()) + "}"


_MM = None


def init_worker(_tier):
    global _MM
    from psyclone.parse import ModuleManager
    _MM = ModuleManager.get()


def _sort(deps):
    sink = io.StringIO()
    with contextlib.redirect_stdout(sink):
        return _MM.sort_modules(deps)


def run_case(case):
    num, selfe, unk = case["n"], case["self"], case["unk"]
    viol = []
    classes = {"acyclic": 0, "cyclic": 0}
    nontrivial = 0
    sample = None
    for index in range(case["start"], case["stop"]):
        deps = decode(num, selfe, unk, index)
        result = _sort(decode(num, selfe, unk, index))
        verdict = judge(deps, list(result))
        cyc = has_cycle(deps)
        classes["cyclic" if cyc else "acyclic"] += 1
        if any(d in deps and d != m for m, ds in deps.items() for d in ds):
            nontrivial += 1
        if sample is None and index % 977 == 5:
            sample = {"map": {k: sorted(v) for k, v in deps.items()},
                      "result": list(result), "cyclic": cyc}
        if verdict:
            viol.append({"key": f"{case['key'].split(':')[0]}:{index}",
                         "sig": verdict[0], "msg": verdict[1],
                         "case": {"n": num, "self": selfe, "unk": unk,
                                  "index": index}})
    count = case["stop"] - case["start"]
    res = {"evals": count, "nontrivial": nontrivial, "states": count,
           "transitions": count, "validated": count, "classes": classes,
           "viol": viol}
    if sample:
        res["sample"] = sample
    return res


def replay(case):
    deps = decode(case["n"], case["self"], case["unk"], case["index"])
    result = list(_sort(decode(case["n"], case["self"], case["unk"], case["index"])))
    verdict = judge(deps, result)
    out = {"map": {k: sorted(v) for k, v in deps.items()}, "result": result,
           "viol": []}
    if verdict:
        out["viol"].append({"sig": verdict[0], "msg": verdict[1]})
    return out
