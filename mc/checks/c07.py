"""C07 Inlining a call preserves the caller's behaviour.

Every program of the enumerated caller x callee corpus (mc/gen/c07_progs.py)
is parsed by the real frontend; InlineTrans (no options) is applied to every
call of the callee inside the caller `s` (and, when `s` contains two calls, to
both in sequence).  Every accepted result is written by FortranWriter, re-read
by FortranReader (names are then resolved exactly as in the generated
source) and executed by the E1 reference interpreter on every input
n = 1..3 x k = 1..2; the final values of all caller arguments and of the
module variable are compared with those of the original program, in which the
call is executed with Fortran's by-reference argument association.
"""
import os
import re

from mc.gen import c07_progs as G

ID = "C07"
LEVEL = "model_checking"
EXHAUSTIVE = True
CASE_TIMEOUT = 14400   # wall clock per work item; the development machine was loaded 20x
RULE = ("programs = mc.gen.c07_progs.corpus_keys(tier): full products callee "
        "signature (scalar / explicit-shape x(nx) / x(0:mx) / assumed-shape x(:) / "
        "x(2:) / 2-D / structure dummies) x body (sequences of <=2 (quick) / <=3 "
        "(thorough) statement templates over dummies and a local, inner loop) x "
        "actual arguments (variable, literal, i+1, a(i) together with i, whole "
        "array, sections incl. other lower bounds / reversed / matrix column, "
        "structure component, same variable twice) x call placement (top level, in "
        "a loop, in an if, two calls, function reference in an expression / loop / "
        "if condition / twice in one expression) x name clashes (callee local named "
        "like a caller local, caller argument, loop variable, module variable; "
        "dummies named like caller variables) x return variants; attempts = "
        "InlineTrans on every call in the caller (+ all calls in sequence); inputs "
        "n=1..3 x k=1..2; non-trivial = accepted attempt (the written and re-read "
        "result is executed on every admissible input)")
ASSUMPTIONS = [
    "E1 (mc/fortsem) is the reference semantics: by-reference argument association "
    "(designators of actual arguments are evaluated once, at the call), sequence "
    "association for explicit-shape dummies, expression actuals bound to a value",
    "an input on which the ORIGINAL program is undefined is skipped: out of bounds, "
    "undefined values steering control, dummy larger than actual, F2008 12.5.2.13 "
    "(an entity associated with a dummy is defined during the call and also accessed "
    "other than through that one dummy; definition of a dummy associated with an "
    "expression), redefinition of an active DO variable; pairs breaking F2008 7.1.4 "
    "(a function defines an argument that appears elsewhere in the statement) are "
    "not generated",
    "the transformed program is the FortranWriter text of the transformed tree "
    "re-read by FortranReader; observables = all arguments of the driver (n, m, k, r, "
    "a, b, q, p, w, og = final value of module variable g); caller locals t and i are "
    "observed through `r = r + 2*t + 3*i`; a location left undefined by the original "
    "is not compared",
    "exceptions other than TransformationError raised by InlineTrans are counted, "
    "not judged",
]
BLOCK = 8

_CORPUS = {}
_TIER = "quick"


def _corpus(tier):
    """VERIF_C07_FAMILIES=RT,AR (development aid, recorded in the bounds)
    restricts the corpus to the named program families."""
    if tier not in _CORPUS:
        keys = G.corpus_keys(tier)
        only = os.environ.get("VERIF_C07_FAMILIES")
        if only:
            keep = set(only.split(","))
            keys = [k for k in keys if k.split(":", 1)[0] in keep]
        _CORPUS[tier] = keys
    return _CORPUS[tier]


def bounds(tier):
    out = {"programs": len(_corpus(tier)), "inputs": "n in 1..3 x k in 1..2 (m = n+1)",
           "max_body_statements": 2 if tier == "quick" else 3,
           "max_dummies": 2 if tier == "quick" else 3}
    if os.environ.get("VERIF_C07_FAMILIES"):
        out["families_only"] = os.environ["VERIF_C07_FAMILIES"]
    return out


def cases(tier):
    total = len(_corpus(tier))
    for start in range(0, total, BLOCK):
        yield {"key": f"blk{start:06d}", "start": start,
               "stop": min(total, start + BLOCK)}


def init_worker(tier):
    """Workers run in a private scratch directory (PSyclone / gfortran may
    create files in the cwd).  Pool workers are terminated without running
    atexit handlers, so the parent removes the directories in finish()."""
    global _TIER
    _TIER = tier
    _corpus(tier)
    from mc import runner
    import atexit
    import shutil
    path = runner.scratch_dir(f"c07-{os.getppid()}")
    os.chdir(path)
    atexit.register(shutil.rmtree, path, True)
    _SCRATCH.append(path)


_SCRATCH = []


def finish(tier, totals):
    import glob
    import shutil
    base = os.environ.get("VERIF_SCRATCH") or "/dev/shm"
    for path in _SCRATCH + glob.glob(os.path.join(base, f"verif.c07-{os.getpid()}.*")):
        if os.getcwd().startswith(path):
            os.chdir(os.path.dirname(os.path.dirname(os.path.dirname(os.path.abspath(__file__)))))
        shutil.rmtree(path, ignore_errors=True)
    return {}


# --------------------------------------------------------------------------
# inputs
# --------------------------------------------------------------------------
def make_args(nval, kval):
    from mc.fortsem import interp as I
    mval = nval + 1
    wval = I.StructVal({
        "f": I.make_scalar("w%f", "int", 3),
        "d": I.make_array("w%d", "int", [(1, 4)], [50 + j for j in range(1, 5)]),
    }, "ty")
    return [
        I.make_scalar("n", "int", nval),
        I.make_scalar("m", "int", mval),
        I.make_scalar("k", "int", kval),
        I.make_scalar("r", "int", 7),
        I.make_array("a", "int", [(1, mval)], [10 * j + 1 for j in range(1, mval + 1)]),
        I.make_array("b", "int", [(0, nval)], [100 + 10 * j + 2 for j in range(0, nval + 1)]),
        I.make_array("q", "int", [(1, mval), (1, mval)],
                     [1000 + 100 * i + 10 * j + 3
                      for j in range(1, mval + 1) for i in range(1, mval + 1)]),
        I.make_array("p", "int", [(2, 4), (0, 3)],
                     [2000 + 100 * i + 10 * j + 4 for j in range(0, 4) for i in range(2, 5)]),
        wval,
        I.make_scalar("og", "int", -1),
    ]


def _inputs():
    return [(f"n={n},k={k}", (lambda n=n, k=k: make_args(n, k)))
            for n in (1, 2, 3) for k in (1, 2)]


# --------------------------------------------------------------------------
# admissibility monitor (original program only)
# --------------------------------------------------------------------------
class Monitor:
    """Raises UB when the original program breaks a rule that E1 itself does
    not check:

    * F2008 12.5.2.13: while an entity is associated with a dummy argument,
      if it is defined during the invocation then every access to it during
      the invocation must be through that single dummy (cell-wise, so that
      disjoint elements of one array may be passed twice);
    * a dummy associated with an expression or literal must not be defined;
    * an active DO variable must not be redefined.
    """

    def __init__(self):
        self.hooks = self
        self.stack = []
        self.loopvars = {}      # loop instance number -> id(cell)

    @staticmethod
    def _cells(stor, out, interp):
        from mc.fortsem import interp as I
        if isinstance(stor, I.Cell):
            if isinstance(stor.v, I.StructVal):
                Monitor._cells(stor.v, out, interp)
            else:
                out.append(stor)
        elif isinstance(stor, I.ArrayVal):
            for cell in stor.cells:
                Monitor._cells(cell, out, interp)
        elif isinstance(stor, I.StructVal):
            for sub in stor.members.values():
                Monitor._cells(sub, out, interp)

    def enter(self, interp, frame, rout, node):
        assoc = {}
        dummies = list(rout.symbol_table.argument_list)
        for dummy in dummies:
            stor = frame.store.get(id(dummy))
            if stor is None:
                continue
            cells = []
            self._cells(stor, cells, interp)
            for cell in cells:
                assoc.setdefault(id(cell), set()).add(dummy.name.lower())
        self.stack.append({"assoc": assoc, "acc": {}, "dummies": dummies,
                           "judge": node is not None and len(self.stack) >= 2})

    def leave(self, interp, frame, rout, node):
        self.stack.pop()

    def tracer(self, kind, cell, node, interp):
        from psyclone.psyir import nodes as N
        from mc.fortsem.interp import UB
        if kind == "W":
            if isinstance(node, N.Loop):
                inst = interp.loop_stack[-1][2] if interp.loop_stack else None
                if inst is not None:
                    self.loopvars[inst] = id(cell)
            else:
                for entry in interp.loop_stack:
                    if self.loopvars.get(entry[2]) == id(cell):
                        raise UB("do-variable-redefined", str(cell.loc))
            if cell.loc and cell.loc[0] == "<expr>":
                raise UB("expr-actual-defined", "dummy associated with an "
                         "expression is defined")
        if not self.stack:
            return
        rec = self.stack[-1]
        if not rec["judge"]:
            return
        names = rec["assoc"].get(id(cell))
        if not names:
            return
        sym = getattr(node, "symbol", None)
        if isinstance(node, N.Loop):
            sym = node.variable
        if sym is not None and any(sym is d for d in rec["dummies"]):
            path = sym.name.lower()
        else:
            path = "<other>"
        acc = rec["acc"].setdefault(id(cell), [set(), False])
        acc[0].add(path)
        if kind == "W":
            acc[1] = True
        if acc[1] and (len(acc[0]) > 1 or "<other>" in acc[0]):
            raise UB("aliasing", f"{cell.loc} is defined while associated with "
                     f"dummy {sorted(names)} and accessed through {sorted(acc[0])}")


# --------------------------------------------------------------------------
# attempts
# --------------------------------------------------------------------------
def _caller_calls(tree):
    from psyclone.psyir import nodes as N
    rout = [r for r in tree.walk(N.Routine) if r.name == "s"][0]
    return [c for c in rout.walk(N.Call) if not isinstance(c, N.IntrinsicCall)]


class InlineAll:
    """InlineTrans applied to every call of the caller, in program order."""

    def apply(self, *calls):
        from psyclone.psyir.transformations import InlineTrans
        for call in calls:
            InlineTrans().apply(call)


def attempts_for(tree):
    from psyclone.psyir.transformations import InlineTrans
    from mc.fortsem.transcheck import Attempt
    calls = _caller_calls(tree)
    out = []
    for idx in range(len(calls)):
        out.append(Attempt(f"InlineTrans@C{idx}", InlineTrans,
                           lambda t, idx=idx: (_caller_calls(t)[idx],)))
    if len(calls) > 1:
        out.append(Attempt("InlineTrans@all", InlineAll,
                           lambda t: tuple(_caller_calls(t))))
    return out


# --------------------------------------------------------------------------
# the transformed program = written text, re-read
# --------------------------------------------------------------------------
def exec_view(fresh):
    from psyclone.psyir.backend.fortran import FortranWriter
    from psyclone.psyir.frontend.fortran import FortranReader
    from psyclone.psyir import nodes as N
    from psyclone.psyir.symbols import UnresolvedInterface
    from mc.fortsem.transcheck import InvalidResult
    try:
        text = FortranWriter()(fresh)
    except Exception as err:  # pylint: disable=broad-except
        raise InvalidResult(f"unwritable({type(err).__name__})", str(err)[:200])
    try:
        tree = FortranReader().psyir_from_source(text)
    except Exception as err:  # pylint: disable=broad-except
        raise InvalidResult(f"unparsable({type(err).__name__})", str(err)[:200])
    rout = [r for r in tree.walk(N.Routine) if r.name == "s"]
    if not rout:
        raise InvalidResult("caller-missing")
    if rout[0].walk(N.CodeBlock):
        raise InvalidResult("unparsable(CodeBlock)",
                            str(rout[0].walk(N.CodeBlock)[0].get_ast_nodes[0])[:100])
    # The module has no USE statements: a name the frontend cannot resolve
    # is an undeclared name (the module is IMPLICIT NONE).
    bad = set()
    for sched in rout[0].walk(N.ScopingNode):
        for sym in sched.symbol_table.symbols:
            if isinstance(getattr(sym, "interface", None), UnresolvedInterface):
                bad.add(sym.name.lower())
    from psyclone.psyir.nodes.intrinsic_call import IntrinsicCall
    bad = {b for b in bad if b.upper() not in IntrinsicCall.Intrinsic.__members__}
    if bad:
        raise InvalidResult(f"undeclared({','.join(sorted(bad))})")
    return tree


def _run_obs(tree, args, by_name=False):
    """('ok', observation) | ('ub', kind) | ('unsupported', msg)"""
    from mc.fortsem import equiv, interp as I
    it = I.Interp(tree, horizon=100000)
    it.by_name = by_name
    try:
        it.run("drv", args)
    except I.UB as err:
        return ("ub", err.kind)
    except I.Unsupported as err:
        return ("unsupported", str(err))
    except RecursionError:
        return ("ub", "recursion")
    return ("ok", equiv.observe(args))


def _undeclared_where(fresh, names):
    """'decl' / 'stmt' / 'decl+stmt': where the caller of the transformed
    tree uses the given (undeclared) names."""
    from psyclone.psyir import nodes as N
    from psyclone.psyir.symbols import ArrayType, DataSymbol
    rout = [r for r in fresh.walk(N.Routine) if r.name == "s"][0]
    where = set()
    for ref in rout.walk(N.Reference):
        if ref.symbol.name.lower() in names:
            where.add("stmt")
    for sched in rout.walk(N.ScopingNode):
        for sym in sched.symbol_table.symbols:
            if isinstance(sym, DataSymbol) and isinstance(sym.datatype, ArrayType):
                for dim in sym.datatype.shape:
                    if isinstance(dim, ArrayType.ArrayBounds):
                        for bound in (dim.lower, dim.upper):
                            if isinstance(bound, N.Node) and any(
                                    r.symbol.name.lower() in names
                                    for r in bound.walk(N.Reference)):
                                where.add("decl")
    return "+".join(sorted(where)) or "?"


def diag_fn(tree, fresh, run_tree, att, bad, inputs, orig):
    """Mechanism tag of a violation (diagnosis only, never the verdict):

    invalid:...      the written result is not a program;
    capture(names)   executed with symbols resolved by identity the
                     transformed tree is right on every failing input, i.e.
                     only the names in the generated source are wrong;
    by-name          on every failing input the transformed program behaves
                     exactly like the original executed with call-by-name
                     argument passing (actual arguments re-evaluated at every
                     use of the dummy);
    wrong[names]     anything else; names = the observable variables that
                     differ (or undefined:<kind>)."""
    from psyclone.psyir import nodes as N
    from psyclone.psyir.symbols import DataSymbol
    from mc.fortsem import equiv, interp as I
    if run_tree is None:
        tag = bad[0][0]
        if tag.startswith("invalid:undeclared("):
            names = set(tag[len("invalid:undeclared("):-1].split(","))
            tag += "@" + _undeclared_where(fresh, names)
        return tag
    makers = dict(inputs)
    # -- name capture
    captured = True
    for ikey, _msg in bad:
        res = _run_obs(fresh, makers[ikey]())
        if res[0] != "ok" or equiv.first_difference(orig[ikey], res[1]) is not None:
            captured = False
            break
    if captured:
        rout = [r for r in fresh.walk(N.Routine) if r.name == "s"][0]
        cont = rout.ancestor(N.Container)
        outer = {s.name.lower() for s in cont.symbol_table.symbols
                 if isinstance(s, DataSymbol)}
        names = set()
        for sched in rout.walk(N.ScopingNode):
            for sym in sched.symbol_table.symbols:
                if isinstance(sym, DataSymbol) and sym.name.lower() in outer:
                    names.add(sym.name.lower())
        return f"capture({','.join(sorted(names))})"
    # -- call by name
    by_name = True
    differs = set()
    for ikey, _msg in bad:
        got = _run_obs(run_tree, makers[ikey]())
        if by_name:
            want = _run_obs(tree, makers[ikey](), by_name=True)
            if want[0] == "unsupported" or want != got:
                by_name = False
        if got[0] != "ok":
            differs.add(f"undefined:{got[1]}")
        else:
            for loc, val in orig[ikey].items():
                if val is not I.POISON and got[1].get(loc) != val:
                    differs.add(str(loc[0]))
    if by_name:
        return "by-name"
    return f"wrong[{','.join(sorted(differs))}]"


def features(key):
    """Known defect mechanisms whose (syntactic) trigger is present in the
    program; used to group the signatures of `wrong` results."""
    _fam, rest = key.split(":", 1)
    kinds, body, actuals, place, _naming, _ret = rest.split("|")
    acts = G._split_actuals(actuals)
    stmts = G.parse_body(body)
    out = set()
    for pos, kind in enumerate(kinds):
        if kind not in "EZAL":
            continue
        used = {name for name, slots in stmts if pos in slots[:1] or
                (name == "xcp" and pos in slots)}
        if place.startswith("f") and pos == 0:
            used.add("result")
        if acts[pos] == "w%d" and kind in "ZL" and used - {"whole", "full"}:
            out.add("component-actual-not-shifted-to-dummy-bounds")
        if "bnd" in used and (kind in "ZL" or acts[pos] == "a~short"):
            out.add("bounds-inquiry-answers-for-the-actual")
        if acts[pos] == "a~short" and used & {"whole", "sum"}:
            out.add("whole-dummy-becomes-whole-larger-actual")
    return sorted(out)


def run_program(key, src, label=None):
    from mc.fortsem import transcheck

    def attempts(tree):
        out = attempts_for(tree)
        return out if label is None else [a for a in out if a.label == label]
    return transcheck.check_program(
        key, src, attempts, _inputs(), routine="drv", monitor=Monitor,
        exec_view=exec_view, fresh_parse=True, consume_tree=True,
        diag_fn=diag_fn, sig_fn=sig_fn)


def sig_fn(tname, label, key, bad, diag):
    """Mechanism-level signatures where the diagnosis is a semantic criterion
    (name capture, call-by-name, undeclared names); otherwise the specific
    (attempt, program, failing inputs)."""
    kinds = key.split(":", 1)[1].split("|", 1)[0]
    if diag.startswith("capture("):
        return f"InlineTrans|name-{diag}:generated-source-resolves-the-name-differently"
    if diag == "by-name":
        return "InlineTrans|actual-arguments-re-evaluated-at-each-use(call-by-name)"
    if diag.startswith("invalid:undeclared("):
        names, where = diag[len("invalid:undeclared("):].split(")@")
        if all(re.fullmatch(r"[mn][xyzkir]", name) for name in names.split(",")):
            # nx / mx ...: the extent arguments of the callee's array dummies
            return f"InlineTrans|invalid:undeclared-extent-dummy@{where}"
        return f"InlineTrans|{diag}|dummies={kinds}"
    feats = features(key)
    if diag.startswith("wrong[") and feats:
        return f"InlineTrans|wrong|{'+'.join(feats)}"
    short = ",".join(b.replace("=", "").replace(",", "") for b in bad)
    return f"{label}|{key}|{diag}|bad@{short}"


GFORTRAN_EVERY = 8     # every 8th block is cross-checked against gfortran


def validate_with_gfortran(keys, tag):
    """E1 vs gfortran on the ORIGINAL programs (admissible inputs only).
    Returns the number of (program, input) runs compared."""
    from mc.fortsem import equiv, transcheck
    from mc.gen import c07_gfo
    progs = []
    expect = {}
    for j, key in enumerate(keys):
        src = G.source_from_key(key)
        tree = transcheck.parse(src)
        ins = []
        for nval in (1, 2, 3):
            for kval in (1, 2):
                args = make_args(nval, kval)
                mon = Monitor()
                res = equiv.run(tree, "drv", args, hooks=mon.hooks, tracer=mon.tracer)
                if res[0] == "unsupported":
                    raise RuntimeError(f"E1 cannot run {key}: {res[1]}")
                if res[0] == "ok":
                    ins.append((nval, kval))
                    expect[(j, nval, kval)] = c07_gfo.flat_observation(args)
        progs.append((src, ins))
    if not expect:
        return 0
    text = c07_gfo.build(progs)
    got, err = c07_gfo.compile_and_run(text, os.getcwd(), tag)
    if got is None:
        raise RuntimeError(f"gfortran rejects / cannot run the original programs "
                           f"{keys}:\n{err[:3000]}")
    from mc.fortsem.interp import POISON
    for ident, want in expect.items():
        have = got.get(ident)
        if have is None or len(have) != len(want) or any(
                w is not POISON and w != h for w, h in zip(want, have)):
            raise RuntimeError(
                f"E1 and gfortran disagree on the ORIGINAL program "
                f"{keys[ident[0]]} for n={ident[1]},k={ident[2]}:\n E1 {want}\n gf {have}")
    return len(expect)


def run_case(case):
    from mc.fortsem import transcheck
    keys = _corpus(_TIER)
    results = []
    block = keys[case["start"]:case["stop"]]
    for key in block:
        results.append(run_program(key, G.source_from_key(key)))
    out = transcheck.merge_results(results)
    if (case["start"] // BLOCK) % GFORTRAN_EVERY == 0:
        out["extra"] = {"original_runs_cross_checked_with_gfortran":
                        validate_with_gfortran(block, case["key"])}
    out.setdefault("sample", {"program": keys[case["start"]]})
    return out


def replay(case):
    return run_program(case["key"], case["src"], case["label"])
