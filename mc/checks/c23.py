"""C23 LFRic shared-DoF increments are only parallelised over colours.

Explicit-state BFS over histories of real transformation applications on
real LFRic PSy objects built from generated kernels (every legal pair of
{GH_INC, GH_READINC, GH_WRITE, GH_READWRITE} x function space) in 1- and
2-kernel invokes, with and without distributed memory.  Every distinct
schedule reached is generated with the real ``psy.gen`` and judged by two
independent structural oracles (schedule tree, generated Fortran text).
"""
import os
import shutil

from mc import c23_core as core
from mc import c23_gen as gen
from mc import runner

ID = "C23"
LEVEL = "model_checking"
EXHAUSTIVE = True
CASE_TIMEOUT = 1500
RULE = (
    "work item = (kernel list, field sharing, distributed memory on/off); "
    "breadth-first search from the untransformed invoke over every "
    "operation (transformation x target) of the alphabet applied with the "
    "real apply() and no options (MoveTrans: position before/after): loop "
    "transformations on every non-kernel statement of every Schedule, "
    "region transformations on every contiguous run of sibling statements, "
    "LFRicLoopFuseTrans on every adjacent sibling pair, MoveTrans on every "
    "ordered sibling pair ('after' only for the last sibling); each accepted "
    "operation is executed on freshly built objects (PSyFactory.create + "
    "replay of the history); a state is the schedule.view() text; every "
    "distinct state that holds a work-sharing directive (omp do, omp "
    "parallel do, acc loop) or a loop over colours next to an OpenMP "
    "parallel region is passed to the real psy.gen and judged when "
    "generation succeeds (of the other states a deterministic 1-in-8 sample "
    "is generated and judged as well).  evaluations = operation "
    "applications; non-trivial = such a state whose generation succeeded; "
    "distinct = distinct (work item, view text)")
ASSUMPTIONS = [
    "canonicalisation: two histories with the same schedule.view() text "
    "(node classes, loop type / field space / iteration space / upper bound "
    "of every loop, kernel names and arguments, halo-exchange field, depth "
    "and check_dirty flag, directive classes, order) are the same state; "
    "no transformation of the alphabet is given an option, so directive "
    "clauses are a function of the tree",
    "judged states = states whose psy.gen succeeds (a GenerationError is a "
    "refusal); states refused at generation are still expanded",
    "parallel loop = loop to which an OpenMP do / parallel do or OpenACC "
    "loop directive is applied (the directives that share iterations); a "
    "loop merely enclosed in an OpenACC parallel/kernels or OpenMP parallel "
    "region without such a directive is not judged by sentence 1",
    "sentence 2 is judged for OpenMP parallel regions and every "
    "work-sharing directive; a loop over colours inside an OpenACC "
    "parallel/kernels region (sequential inside the gang; the recipe of "
    "PSyclone's own tests and examples) is counted, not reported",
    "which kernel needs colouring comes from the check's own table "
    "(access in {gh_inc, gh_readinc} and space in the user guide's list of "
    "continuous spaces incl. any_space_n / any_w2), never from "
    "has_inc_arg / is_coloured / LFRicConstants",
    "same_space (an at-your-own-risk assertion) and every force-style "
    "option are outside the alphabet",
    "a state refused at generation because a directive is nested in a "
    "directive of the same family, or a loop directive's child is not a "
    "loop (message and tree condition both checked), is not expanded: no "
    "operation removes or re-parents a directive, so all its descendants "
    "are refused at generation too",
]

# Groups of work items: (invoke size, kernel alphabet, sharing, depth).  A work
# item that belongs to several groups is explored once, to the largest depth.
# Alphabets: "all" = every legal kernel over gen.SPACES["thorough"]; "mid" =
# legal kernels over gen.SPACES["quick"]; "six" = SIX (one kernel per
# behaviour class); "core" = CORE_PAIRS (ordered pairs).
SIX = ["inc_w1", "rinc_w1", "wr_w1", "rw_w3", "inc_as1", "wr_ads1"]
CORE_PAIRS = [("inc_w1", "wr_w1"), ("wr_w1", "inc_w1"), ("wr_w1", "rinc_w1"),
              ("inc_w1", "rw_w3"), ("rw_w3", "wr_ads1")]
GROUPS = {
    "quick": [(1, "all", "shared", 3), (2, "six", "shared", 2),
              (2, "core", "shared", 3)],
    "thorough": [(1, "all", "shared", 4), (2, "all", "shared", 2),
                 (2, "mid", "shared", 3), (2, "six", "indep", 3),
                 (2, "core", "shared", 4)],
}
MAX_PER_SIG = 1       # violations reported per signature and work item

# filled by prepare(): legal kernel tags (parser accepted them)
_LEGAL = None
_FACTORY_NO = [0]


def _legal_tags():
    """Kernel tags the real LFRic metadata parser accepts (all spaces of
    the thorough tier); rejected access/space pairs are skipped."""
    global _LEGAL
    if _LEGAL is not None:
        return _LEGAL
    from psyclone.parse.utils import ParseError
    legal, rejected = [], []
    for acc, spc in gen.all_kernels(gen.SINGLE_SPACES):
        tag = gen.kern_tag(acc, spc)
        try:
            _factory([tag], "shared")
            legal.append(tag)
        except ParseError:
            rejected.append(tag)
    _LEGAL = (legal, rejected)
    return _LEGAL


def _factory(tags, sharing):
    _FACTORY_NO[0] += 1
    work = runner.scratch_dir(f"c23.{_FACTORY_NO[0]}")
    try:
        return core.Factory(work, tags, sharing)
    finally:
        shutil.rmtree(work, ignore_errors=True)


def _plan(tier):
    """{work item key: case dict}, each item at its largest depth."""
    legal, _ = _legal_tags()
    pools = {"all": legal, "six": SIX,
             "mid": [t for t in legal
                     if gen.decode_tag(t)[1] in gen.SPACES["quick"]]}
    if not set(SIX) <= set(pools["mid"]):
        raise core.Harness("a kernel of SIX is not accepted by the parser")
    plan = {}
    for size, alpha, sharing, depth in GROUPS[tier]:
        if size == 1:
            combos = [[t] for t in legal]
        elif alpha == "core":
            combos = [list(p) for p in CORE_PAIRS]
        else:
            pool = pools[alpha]
            combos = [[a, b] for a in pool for b in pool]
        for tags in combos:
            for dmem in (False, True):
                if size == 1:
                    key = f"1:{tags[0]}:dm{int(dmem)}"
                else:
                    key = f"2:{tags[0]}+{tags[1]}:{sharing}:dm{int(dmem)}"
                if key not in plan or plan[key]["depth"] < depth:
                    plan[key] = {"key": key, "tags": tags, "sharing": sharing,
                                 "dm": dmem, "depth": depth}
    return plan


def bounds(tier):
    legal, rejected = _legal_tags()
    plan = _plan(tier)
    depths = {}
    for case in plan.values():
        name = f"{len(case['tags'])}-kernel invokes explored to depth {case['depth']}"
        depths[name] = depths.get(name, 0) + 1
    return {"groups (invoke size, kernel alphabet, sharing, depth)":
            [list(g) for g in GROUPS[tier]],
            "work_items_by_depth": depths,
            "transformations": core.ORDER,
            "legal_kernels (access_space)": legal,
            "rejected_by_parser": rejected,
            "mid_alphabet_spaces": gen.SPACES["quick"],
            "six": SIX,
            "core_pairs": [list(p) for p in CORE_PAIRS],
            "distributed_memory": [False, True],
            "read_argument_space": gen.READ_SPACE}


def prepare(_tier):
    _legal_tags()


def cases(tier):
    plan = _plan(tier)
    # cheapest first
    for key in sorted(plan, key=lambda k: (plan[k]["depth"],
                                           len(plan[k]["tags"]), k)):
        yield plan[key]


def init_worker(_tier):
    import sys
    sys.setrecursionlimit(10000)
    work = runner.scratch_dir("c23.cwd")
    os.chdir(work)
    os.rmdir(work)          # nothing is ever written to the cwd


def _hist_str(hist):
    return " ; ".join(core.op_str(o) for o in hist) or "(none)"


def _judge(case, hist, psy, schedule, classes, state):
    """Generates and judges one state.  Returns (viol list, judged?,
    non-trivial?, dead end?)."""
    def bump(name):
        classes[name] = classes.get(name, 0) + 1

    sched_found, relevant = core.judge_schedule(schedule)
    if not relevant:
        if sched_found:
            raise core.Harness("finding in a state without work-sharing")
        # Nothing the property talks about (no work-sharing directive, no
        # loop over colours next to an OpenMP parallel region).  Code is
        # only generated for a deterministic 1-in-8 sample of these states,
        # to confirm that generation does not introduce directives.
        if runner.stable_hash(state) % 8:
            bump("state:nothing-to-judge(not generated)")
            return [], False, False, False
    gres = core.generate(psy)
    if gres[0] != "ok":
        bump(f"state:generation-refused:{gres[1]}")
        dead = core.dead_end(schedule, gres[2])
        if dead:
            bump(f"state:dead-end(not expanded):{dead}")
        return [], False, False, bool(dead)
    code = gres[1]
    text_found = core.judge_text(code)
    if core.colours_loop_in_acc_region(code):
        # counted, not judged (see ASSUMPTIONS)
        bump("state:colours-loop-in-acc-region(not judged)")
    viol = []
    for sig, rule, kind, tag in core.verdicts(sched_found, text_found):
        if rule == "uncoloured":
            acc, spc = gen.decode_tag(tag)
            what = (f"kernel c23_{tag}_code ({acc} on {spc}) is called from a "
                    f"loop over cells that has a '{kind}' directive but is "
                    f"not a loop over the cells of one colour")
        else:
            what = (f"a loop over colours is inside / the target of a "
                    f"'{kind}' directive")
        viol.append({
            "key": f"{case['key']}|{_hist_str(hist)}",
            "sig": sig,
            "msg": (f"invoke({', '.join('c23_' + t + '_type' for t in case['tags'])}), "
                    f"distributed_memory={case['dm']}, history "
                    f"[{_hist_str(hist)}] was accepted and generated: {what}. "
                    f"Expected: refusal or a coloured loop. Generated:\n"
                    + core.kernels_section(code)),
            "case": {"tags": case["tags"], "sharing": case["sharing"],
                     "dm": case["dm"], "hist": hist},
        })
    # (a sampled state is judged like any other: anything the text oracle
    # finds in it is reported as a text-only finding)
    bump("state:judged" if relevant else "state:sampled-nothing-to-judge")
    return viol, True, relevant, False


def run_case(case):
    factory = _factory(case["tags"], case["sharing"])
    dmem = case["dm"]
    depth = case["depth"]
    classes = {}
    viol, seen_sig = [], {}
    evals = judged = nontrivial = suppressed = 0

    def bump(name, num=1):
        classes[name] = classes.get(name, 0) + num

    def take(found):
        nonlocal suppressed
        for vio in found:
            seen_sig[vio["sig"]] = seen_sig.get(vio["sig"], 0) + 1
            if seen_sig[vio["sig"]] <= MAX_PER_SIG:
                viol.append(vio)
            else:
                suppressed += 1

    psy, schedule = factory.fresh(dmem)
    view0 = core.view(schedule)
    found, was_judged, nontriv, _ = _judge(case, [], psy, schedule, classes,
                                           view0)
    code0 = core.generate(factory.fresh(dmem)[0])
    take(found)
    judged += was_judged
    nontrivial += nontriv
    seen = {view0: []}
    frontier = [[]]
    sample = None
    for level in range(depth):
        nxt = []
        for hist in frontier:
            psy, schedule = core.replay_history(factory, dmem, hist)
            here = core.view(schedule)
            if here not in seen:
                raise core.Harness("replayed history gives an unknown state")
            for oper in core.enumerate_ops(schedule):
                evals += 1
                res = core.apply_op(schedule, oper)
                if res is not None:
                    bump(f"op:{oper[0]}:refused")
                    if core.view(schedule) != here:
                        # C26's business, not ours: start from clean objects
                        bump("op:refused-but-tree-changed(rebuilt)")
                        psy, schedule = core.replay_history(factory, dmem,
                                                            hist)
                    continue
                bump(f"op:{oper[0]}:accepted")
                new = core.view(schedule)
                if new not in seen:
                    path = hist + [oper]
                    seen[new] = path
                    found, was_judged, nontriv, dead = _judge(
                        case, path, psy, schedule, classes, new)
                    take(found)
                    judged += was_judged
                    nontrivial += nontriv
                    if nontriv and sample is None and len(path) == depth:
                        sample = {"work_item": case["key"],
                                  "history": _hist_str(path),
                                  "violations": [v["sig"] for v in found]}
                    if level + 1 < depth and not dead:
                        nxt.append(path)
                psy, schedule = core.replay_history(factory, dmem, hist)
        frontier = nxt
    # the shared parse result must not have been changed by any of this
    psy, schedule = factory.fresh(dmem)
    if core.view(schedule) != view0 or core.generate(psy) != code0:
        raise core.Harness("building/generating changed the parsed invoke")
    # every reported violation is re-confirmed from scratch
    for vio in viol:
        again = replay(vio["case"])
        if vio["sig"] not in [v["sig"] for v in again["viol"]]:
            raise core.Harness(f"violation {vio['key']} is not reproducible")
    res = {"evals": evals, "nontrivial": nontrivial, "states": len(seen),
           "transitions": evals, "validated": judged, "classes": classes,
           "viol": viol,
           "extra": {"violating_findings_not_listed": suppressed,
                     "max_states_per_work_item": [len(seen)]}}
    if sample:
        res["sample"] = sample
    return res


def finish(_tier, totals):
    sizes = totals["extra"].pop("max_states_per_work_item", [0])
    return {"max_states_per_work_item": max(sizes)}


def replay(case):
    factory = _factory(case["tags"], case["sharing"])
    hist = [list(o) for o in case["hist"]]
    psy, schedule = core.replay_history(factory, case["dm"], hist)
    key = {"key": "replay", "tags": case["tags"], "sharing": case["sharing"],
           "dm": case["dm"]}
    classes = {}
    found, was_judged, _, _ = _judge(key, hist, psy, schedule, classes, "")
    return {"history": _hist_str(hist), "schedule": core.view(schedule),
            "generated": was_judged, "viol": found}
