"""C22 Distributed-memory LFRic code never reads a dirty halo.

Real generated distributed-memory PSy layers (psy.gen, API dynamo0.3) for a
bounded space of invokes x COMPUTE_ANNEXED_DOFS x accepted transformation
histories are re-read with PSyclone's FortranReader and EXECUTED, for both
partitions of a two-partition periodic ring in lock-step, on a concrete model
of the LFRic run time with halos (mc/lfring, "E6"), from every initial halo
state of every field (dirty, clean to depth 1, 2, 3) and every run-time
stencil extent (1, 2).  The oracle only compares values with a global serial
run of the same kernel sequence on the undecomposed ring.
"""
import os
import shutil

ID = "C22"
LEVEL = "model_checking"
EXHAUSTIVE = True
CASE_TIMEOUT = 3000
RULE = ("work item = one invoke of mc.lfring.spaces.elements(tier) (1-2 [thorough: "
        "1-3] kernels / built-ins over <=3 fields; per argument access x function "
        "space x stencil) explored for COMPUTE_ANNEXED_DOFS in {false,true} by BFS "
        "over accepted transformation histories up to the item's depth; evaluation "
        "= one execution of one generated PSy layer from one (initial halo state "
        "of every field, run-time extent valuation) on the two-partition ring; "
        "distinct non-trivial = distinct generated PSy-layer texts that were "
        "executed (histories giving the same text or the same schedule view are "
        "executed once); states = schedules reached, transitions = "
        "transformation attempts")
ASSUMPTIONS = [
    "E6 (mc/lfring/ring.py) is the LFRic run time: flag semantics transcribed from "
    "the infrastructure sources shipped with PSyclone; a halo exchange to depth d "
    "refreshes annexed DoFs and halo DoFs of depth <= d with the owner's current "
    "value and nothing else; data being exchanged asynchronously is undefined "
    "between start and finish",
    "initial state: a halo copy outside the field's initial clean depth is "
    "undefined; annexed DoFs are valid on entry when COMPUTE_ANNEXED_DOFS is true "
    "(the invariant PSyclone documents and relies on) or the halo is clean to "
    "depth >= 1, undefined otherwise",
    "kernels are the value functions of mc/lfring/kernels.py (exact integer / "
    "rational arithmetic, distinct prime weights); GH_WRITE to a continuous space "
    "writes cell-independent values; GH_READINC reads the values the field had "
    "before the loop",
    "values only: (1) owned DoFs after the invoke equal the global serial run, "
    "(2) after every flag-changing statement and at the end every copy inside the "
    "recorded clean depth (annexed DoFs count as depth 1) equals the owner's "
    "value, (3) a read access of a kernel computing an OWNED cell never consumes "
    "a copy that differs from the owner's value; dirty reads in redundantly "
    "computed halo cells are only judged through (1) and (2)",
    "OpenMP regions are executed serially; loop fusion is only judged when the "
    "fused loop is serially equivalent to the kernel sequence "
    "(LFRicLoopFuseTrans does not check data dependences: not this property); "
    "an LFRic run-time abort (depth out of range) and a GenerationError at "
    "psy.gen are recorded as outcome classes, not violations",
    "kernel metadata objects are memoised per kernel source inside a worker "
    "(checked against un-memoised generation in prepare())",
]

_SCRATCH = None
_EXEC = None
_ELEMS = {}


def bounds(tier):
    from mc.lfring import core
    from collections import Counter
    els = _elements(tier)
    cnt = Counter(f"{tag}:depth{depth}" for tag, _, depth, _ in els)
    return {"ring": {"cells_per_partition": core.NCELL, "halo_depth": core.DEPTH,
                     "partitions": 2},
            "initial_states_per_field": core.DEPTH + 1,
            "runtime_extents": [1, 2], "annexed": [False, True],
            "invokes": len(els), "families": dict(sorted(cnt.items())),
            "transformations": ["Dynamo0p3RedundantComputationTrans(1,2,3,max)",
                                "Dynamo0p3ColourTrans",
                                "DynamoOMPParallelLoopTrans",
                                "OMPParallelTrans+Dynamo0p3OMPLoopTrans",
                                "Dynamo0p3AsyncHaloExchangeTrans",
                                "MoveTrans(halo exchange)",
                                "LFRicLoopFuseTrans"]}


def _elements(tier):
    if tier not in _ELEMS:
        from mc.lfring import core, spaces
        best = {}
        order = []
        for tag, spec, depth, kinds in spaces.elements(tier):
            key = core.spec_key(spec)
            if key not in best:
                order.append(key)
                best[key] = (tag, spec, depth, kinds)
            elif best[key][2] < depth:
                best[key] = (tag, spec, depth, kinds)
        only = os.environ.get("C22_ONLY")      # development aid: tag filter
        _ELEMS[tier] = [best[k] for k in order
                        if not only or best[k][0] in only.split(",")]
    return _ELEMS[tier]


def prepare(tier):
    """Model-fidelity self-test (failure = harness error) and the
    memoisation cross-check."""
    from mc import runner
    from mc.lfring import core, selftest
    _remove_stale_scratch()
    selftest.run()
    scratch = runner.scratch_dir("c22prep")
    try:
        cwd = os.getcwd()
        os.chdir(scratch)
        sample = [e for e in _elements(tier)][::max(1, len(_elements(tier)) // 6)]
        texts = []
        for memo in (True, False, True):
            if memo:
                core.enable_metadata_memo()
            else:
                core.disable_metadata_memo()
            cur = []
            for num, (_, spec, _, _) in enumerate(sample[:6]):
                inv = core.Invoke(spec, os.path.join(scratch, f"m{num}"))
                from mc.lfring import gen
                gen.reset_psyclone(True)
                psy, _ = inv.build([])
                cur.append(str(psy.gen))
            texts.append(cur)
        core.disable_metadata_memo()
        os.chdir(cwd)
        if not texts[0] == texts[1] == texts[2]:
            raise runner.HarnessError("memoised kernel metadata changes the "
                                      "generated code")
    finally:
        shutil.rmtree(scratch, ignore_errors=True)


def _remove_stale_scratch():
    """Worker directories of an earlier run that ended with a harness error
    (finish() is not reached then) and whose parent process is gone."""
    import glob
    import re
    base = os.environ.get("VERIF_SCRATCH") or "/dev/shm"
    for path in glob.glob(os.path.join(base, "verif.c22-*.*")):
        mat = re.search(r"verif\.c22-(\d+)\.\d+$", path)
        if mat and not os.path.exists(f"/proc/{mat.group(1)}"):
            shutil.rmtree(path, ignore_errors=True)


def cases(tier):
    from mc.lfring import core
    for tag, spec, depth, kinds in _elements(tier):
        yield {"key": f"{tag}:{core.spec_key(spec)}", "spec": spec,
               "depth": depth, "kinds": list(kinds)}


def init_worker(_tier):
    global _SCRATCH, _EXEC
    from mc import runner
    from mc.lfring import core
    import atexit
    # pool workers are terminated without running atexit handlers: the
    # parent removes verif.c22-<parent pid>.* in finish()
    _SCRATCH = runner.scratch_dir(f"c22-{os.getppid()}")
    atexit.register(shutil.rmtree, _SCRATCH, True)
    os.chdir(_SCRATCH)
    core.enable_metadata_memo()
    _EXEC = core.Executor()


def finish(_tier, _totals):
    import glob
    base = os.environ.get("VERIF_SCRATCH") or "/dev/shm"
    here = os.path.dirname(os.path.dirname(os.path.dirname(
        os.path.abspath(__file__))))
    for path in glob.glob(os.path.join(base, f"verif.c22-{os.getpid()}.*")) \
            + ([_SCRATCH] if _SCRATCH else []):
        if os.getcwd().startswith(path):
            os.chdir(here)
        shutil.rmtree(path, ignore_errors=True)
    return {}


def _invoke(spec):
    from mc.lfring import core
    from mc.runner import stable_hash
    directory = os.path.join(_SCRATCH,
                             f"i{stable_hash(core.spec_key(spec)):08x}")
    inv = core.Invoke(spec, directory)
    return inv, directory


def run_case(case):
    from mc.lfring import core
    spec = case["spec"]
    inv, directory = _invoke(spec)
    tot = {"evals": 0, "nontrivial": 0, "states": 0, "transitions": 0,
           "validated": 0, "classes": {}, "viol": []}
    sample = None
    try:
        for annexed in (False, True):
            res = core.explore(inv, annexed, case["depth"], set(case["kinds"]),
                               _EXEC)
            tot["evals"] += res["runs"]
            tot["nontrivial"] += res["executed"]
            tot["validated"] += res["executed"]
            tot["states"] += res["states"]
            tot["transitions"] += res["transitions"]
            for key, num in res["classes"].items():
                tot["classes"][key] = tot["classes"].get(key, 0) + num
            tot["viol"] += res["viol"]
            sample = sample or res["sample"]
    finally:
        shutil.rmtree(directory, ignore_errors=True)
    if sample is None:
        sample = {"invoke": core.spec_key(spec), "history": "-",
                  "runs": tot["evals"]}
    tot["sample"] = sample
    return tot


def replay(case):
    """Re-executes one (invoke, annexed, history)."""
    from mc.lfring import core
    if _SCRATCH is None:
        init_worker("quick")
    inv, directory = _invoke(case["spec"])
    try:
        res = core.explore(inv, case["annexed"], 0, set(), _EXEC,
                           only_history=case["history"])
    finally:
        shutil.rmtree(directory, ignore_errors=True)
    return {"classes": res["classes"], "runs": res["runs"],
            "viol": res["viol"]}
