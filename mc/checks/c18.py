"""C18 Line-length limiting keeps the program and respects the limit.

Every line of an enumerated family of free-form Fortran line shapes is given
to the real ``FortLineLength(limit).process`` for every limit of the tier.
Oracle (independent of line_length.py): no exception other than the documented
refusal of a line that cannot be wrapped at all, every output line <= limit,
the logical lines (statements, directives, comments after joining
continuation lines, see mc/c18_joiner.py) of output and input are the same,
and a second pass changes nothing. The joiner itself is bound to gfortran
(parse-tree dumps of input and output) and to fparser's source reader by the
``gf:*`` work items.
"""
import os
import shutil
import subprocess

from mc import c18_joiner as J
from mc import c18_lines as L

ID = "C18"
LEVEL = "model_checking"
EXHAUSTIVE = True
RULE = ("texts = every shape (head x indentation x separator x item pattern up "
        "to the tier's depth x tail) x every item count whose (first) line is "
        "38..202 characters long; tail t3 gives a two-line text (statement or "
        "directive already continued with '&'); each text x every limit of the "
        "tier with -2 <= longest line - limit <= window. A (text, limit) pair is "
        "non-trivial when its longest line exceeds the limit (the limiter has "
        "to act); all pairs are distinct (distinct text or distinct limit). "
        "Violations are recorded at most 2 per signature and work item; the "
        "full counts are in outcome_classes")
ASSUMPTIONS = [
    "the enumerated texts are complete statements, directives or comments "
    "(one line, or two lines when already continued); directives carry no "
    "trailing comment (not in the property's list of line kinds)",
    "a clean InternalError 'No suitable break point found' is an allowed refusal "
    "only when NO placement of breaks after the documented break strings of the "
    "line's class (with or without its indentation) makes the line fit; any "
    "other exception, or that error on a line that can be wrapped, is a failure",
    "statements and directives are compared as token sequences (blanks outside "
    "character literals only separate tokens), comments as text from the '!' "
    "on; indentation is not part of the meaning",
    "'!& ' at the start of a comment line directly after a comment line "
    "continues that comment (PSyclone's convention) on both sides",
]
CASE_TIMEOUT = 900

PER_SIG_PER_ITEM = 2          # violations kept per signature and work item
GF_BAD_PER_SIG = 12           # statement-changing outputs compiled per gf item
GF_BATCH = 600               # lines per gfortran invocation

TIERS = {
    "quick": {"depth": 2, "window": 70,
              "limits": sorted(set(range(40, 133, 3)) | {40, 80, 132})},
    "thorough": {"depth": 3, "window": 162, "limits": list(range(40, 133))},
}
# gfortran/fparser cross-check: (indentation, pattern depth) per tier
GF_PLAN = {"quick": [(0, 2), (40, 1)], "thorough": [(0, 2), (40, 2)]}


def bounds(tier):
    cfg = TIERS[tier]
    return {
        "heads": {h: {"class": L.HEADS[h][0], "pre": L.HEADS[h][1],
                      "post": L.HEADS[h][2], "items": L.HEADS[h][3],
                      "separators": L.HEADS[h][4], "tails": L.HEADS[h][5]}
                  for h in L.HEAD_ORDER},
        "indentations": L.INDENTS, "tails": L.TAILS,
        "pattern_depth": cfg["depth"], "line_length": [L.MIN_LEN, L.MAX_LEN],
        "limits": cfg["limits"], "len_minus_limit": [-2, cfg["window"]],
        "gfortran_cross_check": {
            "indentation_and_pattern_depth": GF_PLAN[tier],
            "line": "first item count with length >= 100 (else the longest)",
            "limits": "40 and min(132, len-1)"},
    }


# ---------------------------------------------------------------------------
# enumeration
# ---------------------------------------------------------------------------
def cases(tier):
    for head in L.HEAD_ORDER:
        if L.HEADS[head][6] is not None:
            for indent, depth in GF_PLAN[tier]:
                yield {"key": f"gf:{head}:{indent}", "kind": "gf",
                       "head": head, "indent": indent, "depth": depth,
                       "tier": tier}
    for head in L.HEAD_ORDER:
        _cls, _pre, _post, kinds, seps, tails, _ctx = L.HEADS[head]
        for indent in L.INDENTS:
            for tail in tails:
                for sidx, sep in enumerate(seps):
                    for first in kinds:
                        yield {"key": f"{head}:{indent}:{tail}:s{sidx}:{first}",
                               "kind": "enum", "head": head, "indent": indent,
                               "tail": tail, "sep": sep, "first": first,
                               "tier": tier}


# ---------------------------------------------------------------------------
# the code under test
# ---------------------------------------------------------------------------
_FLL = None
_INTERNAL_ERROR = None


def init_worker(_tier):
    global _FLL, _INTERNAL_ERROR
    from psyclone.line_length import FortLineLength
    from psyclone.errors import InternalError
    _FLL = FortLineLength
    _INTERNAL_ERROR = InternalError


def _process(text, limit):
    return _FLL(line_length=limit).process(text)


# ---------------------------------------------------------------------------
# oracle
# ---------------------------------------------------------------------------
def expected_canonical(text, head, tail):
    """What the joiner must make of an enumerated input text (guards the
    generator and the joiner: a mismatch is a harness error)."""
    cls = L.HEADS[head][0]
    if cls == "comment":
        return [("comment", text.strip())]
    tail_text = L.TAILS[tail]
    code = text.strip()
    if tail_text:
        code = code[:len(code) - len(tail_text)]
    if tail == "t3":
        # Written without the continuation: "first &" + "[sentinel&] last".
        first, second = text.split("\n")
        first = first.rstrip()[:-1]
        second = second.strip()
        if cls in ("omp", "acc"):
            second = second[6:]
        code = first.strip() + " " + second
    if cls in ("omp", "acc"):
        entry = (cls, tuple(J.tokens(code[5:])))
    else:
        entry = ("stmt", tuple(J.tokens(code)))
    out = [entry]
    if tail_text:
        out.append(("comment", tail_text.strip()))
    return out


def _longest(text):
    return max(len(one) for one in text.split("\n"))


_TAIL_NAME = {"t0": "plain", "t1": "tc", "t2": "tc", "t3": "continued"}


def _line_class(head, index):
    """Class of the index-th physical line of an input of this head."""
    cls = L.HEADS[head][0]
    if index > 0 and cls == "statement":
        return "other"
    return cls


def _how_wrappable(text, head, limit):
    """Judges a refusal: finds the physical line that is refused (lines are
    independent for the limiter; each over-long line is given to it alone)
    and asks the reference whether that line can be wrapped.

    :returns: None if the refused line cannot be wrapped at all, else how it
        can be made to fit."""
    lines = text.split("\n")
    for index, one in enumerate(lines):
        if len(one) <= limit:
            continue
        try:
            _process(one, limit)
        except _INTERNAL_ERROR:
            return L.wrappable(one, _line_class(head, index), limit)
    # Refused as a whole but no line is refused on its own.
    return "only-refused-in-context"


def _short(text, size=420):
    text = text.replace("\n", "\\n")
    return text if len(text) <= size else text[:size] + "..."


def judge(line, head, tail, limit, canon_in):
    """Runs the limiter on one line and judges the result.

    :returns: (outcome class, output text or None, None or (sig, msg)).
    """
    cls = L.HEADS[head][0]
    suffix = f"{cls}:{_TAIL_NAME[tail]}"
    where = f"limit={limit}, text (longest line {_longest(line)})={line!r}"
    try:
        out = _process(line, limit)
    except _INTERNAL_ERROR as err:
        if "No suitable break point found" not in str(err):
            return ("exception", None,
                    (f"exception:InternalError:{suffix}",
                     f"process() raised InternalError({_short(str(err))}) "
                     f"for {where}"))
        how = _how_wrappable(line, head, limit)
        if how is None:
            return "refused:cannot-be-wrapped", None, None
        return ("refused-wrappable", None,
                (f"refused-wrappable:{how}:{cls}",
                 f"process() raised InternalError 'No suitable break point "
                 f"found' although the line can be made to fit ({how}): {where}"))
    except Exception as err:  # pylint: disable=broad-except
        return ("exception", None,
                (f"exception:{type(err).__name__}:{suffix}",
                 f"process() raised {type(err).__name__}({_short(str(err))}) "
                 f"for {where}"))
    if not isinstance(out, str):
        return ("exception", None,
                (f"not-a-string:{suffix}", f"process() returned "
                 f"{type(out).__name__} for {where}"))
    longest = _longest(out)
    if longest > limit:
        return ("too-long", out,
                (f"too-long:{suffix}",
                 f"output has a line of {longest} characters; {where}; "
                 f"output={_short(out)!r}"))
    canon_out = J.canonical(out)
    if canon_out != canon_in:
        return ("meaning-changed", out,
                (f"{_difference(canon_in, canon_out, out)}:{suffix}",
                 f"the logical lines of the output differ from the input; "
                 f"{where}; output={_short(out)!r}; input logical lines="
                 f"{_short(_show(canon_in), 300)}; output logical lines="
                 f"{_short(_show(canon_out), 500)}"))
    try:
        again = _process(out, limit)
    except Exception as err:  # pylint: disable=broad-except
        return ("second-pass", out,
                (f"second-pass-exception:{type(err).__name__}:{suffix}",
                 f"second pass raised {type(err).__name__}; {where}"))
    if again != out:
        return ("second-pass", out,
                (f"second-pass-differs:{suffix}",
                 f"a second pass changes the text; {where}; first="
                 f"{_short(out)!r}; second={_short(again)!r}"))
    if out == line:
        return "unchanged", out, None
    if out.split("\n")[0][:1] != line[:1]:
        return "wrapped-without-indentation", out, None
    return "wrapped", out, None


def _show(canon):
    parts = []
    for kind, payload in canon:
        if isinstance(payload, tuple):
            payload = " ".join(payload)
        parts.append(f"[{kind}] {payload}")
    return " | ".join(parts)


def _difference(canon_in, canon_out, out):
    """A specific, stable name for the way the meaning changed."""
    comments_in = [p for k, p in canon_in if k == "comment"]
    code_in = [(k, p) for k, p in canon_in if k != "comment"]
    code_out = [(k, p) for k, p in canon_out if k != "comment"]
    bad = [k for k, _ in canon_out if k.startswith("bad:")]
    if code_in and comments_in and comments_in[0] not in out:
        # The trailing comment of a statement/directive no longer exists in
        # one piece: the line was cut inside it.
        what = "trailing-comment-cut"
        if bad:
            what += "+" + bad[0][4:]
        return what
    if bad:
        return bad[0][4:]
    if len(code_out) != len(code_in):
        return "statement-count-differs"
    if code_out != code_in:
        kind = code_in[0][0]
        if code_out[0][0] != kind:
            return f"{kind}-became-{code_out[0][0]}"
        return f"{kind}-tokens-differ"
    return "comment-differs"


def _statements_differ(canon_in, canon_out):
    return ([e for e in canon_in if e[0] != "comment"] !=
            [e for e in canon_out if e[0] != "comment"])


# ---------------------------------------------------------------------------
# enumeration work items
# ---------------------------------------------------------------------------
def _limits_for(length, cfg):
    return [lim for lim in cfg["limits"]
            if -2 <= length - lim <= cfg["window"]]


def _run_enum(case):
    cfg = TIERS[case["tier"]]
    head, indent, tail, sep = (case["head"], case["indent"], case["tail"],
                               case["sep"])
    kinds = L.HEADS[head][3]
    classes = {}
    viol, per_sig = [], {}
    evals = nontrivial = lines = 0
    sample = None
    for pattern in L.patterns(kinds, cfg["depth"]):
        if pattern[0] != case["first"]:
            continue
        for count in L.counts(head, indent, sep, pattern, tail):
            line = L.build(head, indent, sep, pattern, tail, count)
            canon_in = J.canonical(line)
            if canon_in != expected_canonical(line, head, tail):
                raise RuntimeError(
                    f"joiner/generator disagreement on input {line!r}: "
                    f"{canon_in} != {expected_canonical(line, head, tail)}")
            lines += 1
            length = _longest(line)
            for limit in _limits_for(length, cfg):
                outcome, out, verdict = judge(line, head, tail, limit,
                                              canon_in)
                evals += 1
                if length > limit:
                    nontrivial += 1
                elif outcome != "unchanged":
                    # Not asked to do anything, yet did something.
                    if verdict is None:
                        verdict = (f"short-line-altered:{L.HEADS[head][0]}",
                                   f"a line that fits (limit={limit}) was "
                                   f"altered: {line!r} -> {out!r}")
                        outcome = "short-line-altered"
                if verdict:
                    name = "VIOLATION " + verdict[0]
                    classes[name] = classes.get(name, 0) + 1
                    seen = per_sig.get(verdict[0], 0)
                    per_sig[verdict[0]] = seen + 1
                    if seen < PER_SIG_PER_ITEM:
                        payload = {"head": head, "indent": indent, "sep": sep,
                                   "pattern": list(pattern), "tail": tail,
                                   "count": count, "limit": limit}
                        viol.append({
                            "key": f"{case['key']}:{'-'.join(pattern)}:"
                                   f"n{count}:L{limit}",
                            "sig": verdict[0], "msg": verdict[1],
                            "case": payload})
                else:
                    classes[outcome] = classes.get(outcome, 0) + 1
                    if sample is None and outcome.startswith("wrapped") \
                            and (count + limit) % 7 == 3:
                        sample = {"limit": limit, "line": line, "output": out,
                                  "outcome": outcome}
    res = {"evals": evals, "nontrivial": nontrivial, "states": evals,
           "transitions": evals, "classes": classes, "viol": viol,
           "extra": {"lines": lines}}
    if sample:
        res["sample"] = sample
    return res


# ---------------------------------------------------------------------------
# gfortran / fparser cross-check work items
# ---------------------------------------------------------------------------
_GF_FLAGS = ["-fsyntax-only", "-ffree-line-length-none", "-fopenmp",
             "-fopenacc", "-fallow-argument-mismatch", "-fdump-parse-tree"]


def _gfortran(workdir, name, units):
    """Compiles a file made of the support module and the units.

    :returns: (return code, parse-tree dump, diagnostics)."""
    path = os.path.join(workdir, name)
    with open(path, "w", encoding="utf-8") as fout:
        fout.write(L.SUPPORT_MODULE)
        fout.write("".join(units))
    res = subprocess.run(["/usr/bin/gfortran"] + _GF_FLAGS + [name],
                         cwd=workdir, capture_output=True, text=True,
                         check=False)
    return res.returncode, res.stdout, res.stderr


def _fparser_lines(text):
    """Logical lines according to fparser's free-form reader: list of
    (kind, text) with kind 'stmt' or 'comment' (directives are comments to
    this reader)."""
    from fparser.common.readfortran import FortranStringReader, Comment, Line
    reader = FortranStringReader(text, ignore_comments=False)
    reader.set_format(_FFORMAT)
    out = []
    for itm in reader:
        if isinstance(itm, Comment):
            if itm.comment.strip():
                out.append(("comment", itm.comment.strip()))
        elif isinstance(itm, Line):
            out.append(("stmt", itm.line))
        else:
            out.append((type(itm).__name__, str(itm)))
    return out


_FFORMAT = None


def _fparser_agrees(text, canon):
    """Compares the statements fparser's reader finds in ``text`` with the
    joiner's (blank-insensitively; fparser rewrites some blanks)."""
    global _FFORMAT
    if _FFORMAT is None:
        from fparser.common.sourceinfo import FortranFormat
        _FFORMAT = FortranFormat(True, False)
    mine = ["".join(payload) for kind, payload in canon if kind == "stmt"]
    theirs = ["".join(J.tokens(txt)) for kind, txt in _fparser_lines(text)
              if kind == "stmt"]
    return mine == theirs, mine, theirs


def _gf_lines(head, indent, depth):
    """The lines of the cross-check for one head with their limits."""
    _cls, _pre, _post, kinds, seps, tails, _ctx = L.HEADS[head]
    for sep in seps:
        for pattern in L.patterns(kinds, depth):
            for tail in tails:
                nums = L.counts(head, indent, sep, pattern, tail)
                if not nums:
                    continue
                count = nums[-1]
                for num in nums:
                    if L.first_line_length(head, indent, sep, pattern, tail,
                                           num) >= 100:
                        count = num
                        break
                line = L.build(head, indent, sep, pattern, tail, count)
                longest = _longest(line)
                limits = [lim for lim in (40, min(132, longest - 1))
                          if 40 <= lim < longest]
                yield (line, tail, sorted(set(limits)),
                       {"head": head, "indent": indent, "sep": sep,
                        "pattern": list(pattern), "tail": tail,
                        "count": count})


def _run_gf(case):
    from mc.runner import scratch_dir
    head = case["head"]
    cls = L.HEADS[head][0]
    good, bad = [], {}          # good: [line, {slot: output}]
    classes = {}
    viol, per_sig = [], {}
    fparser_checked = 0
    for line, tail, limits, base in _gf_lines(head, case["indent"],
                                              case["depth"]):
        canon_in = J.canonical(line)
        outs = {}
        for slot, limit in enumerate(limits):
            payload = dict(base, limit=limit)
            outcome, out, verdict = judge(line, head, tail, limit, canon_in)
            if verdict:
                seen = per_sig.get(verdict[0], 0)
                per_sig[verdict[0]] = seen + 1
                if seen < PER_SIG_PER_ITEM:
                    viol.append({
                        "key": f"{case['key']}:{tail}:"
                               f"s{L.HEADS[head][4].index(base['sep'])}:"
                               f"{'-'.join(base['pattern'])}:"
                               f"n{base['count']}:L{limit}",
                        "sig": verdict[0], "msg": verdict[1],
                        "case": payload})
            if out is None:
                name = "gf:not-wrapped(" + outcome + ")"
                classes[name] = classes.get(name, 0) + 1
                continue
            canon_out = J.canonical(out)
            if cls in ("statement", "other"):
                # The joiner against fparser's reader, on input and output,
                # unless the joiner rejects the output as ill-formed.
                for text, canon in ((line, canon_in), (out, canon_out)):
                    if any(k.startswith("bad:") for k, _ in canon):
                        continue
                    same, mine, theirs = _fparser_agrees(text, canon)
                    if not same:
                        raise RuntimeError(
                            f"joiner and fparser reader disagree on "
                            f"{text!r}: {mine} != {theirs}")
                    fparser_checked += 1
            if verdict is None:
                outs[slot] = out
            elif _statements_differ(canon_in, canon_out):
                bad.setdefault(verdict[0], []).append((line, out, payload))
        if outs:
            good.append((line, outs))
    workdir = scratch_dir(f"c18.{head}.{case['indent']}")
    validated = 0
    try:
        # Outputs the joiner calls equivalent: gfortran must accept input and
        # output and build the identical parse tree for both. (A line without
        # such an output for a limit stands in for itself.)
        for start in range(0, len(good), GF_BATCH):
            part = good[start:start + GF_BATCH]
            rc_in, dump_in, err_in = _gfortran(
                workdir, "unit.f90",
                [L.unit(head, p[0], n) for n, p in enumerate(part)])
            if rc_in != 0:
                raise RuntimeError(f"gfortran rejects generated input lines "
                                   f"of head {head}: {err_in[:2000]}")
            for slot in (0, 1):
                if not any(slot in p[1] for p in part):
                    continue
                rc_out, dump_out, err_out = _gfortran(
                    workdir, "unit.f90",
                    [L.unit(head, p[1].get(slot, p[0]), n)
                     for n, p in enumerate(part)])
                if rc_out != 0 or dump_out != dump_in:
                    culprit = _first_culprit(workdir, head, part, slot)
                    raise RuntimeError(
                        f"joiner says 'same program' but gfortran disagrees "
                        f"(head {head}): {culprit} {err_out[:1500]}")
                validated += sum(1 for p in part if slot in p[1])
        classes["gf:same-parse-tree"] = validated
        # Outputs whose statements/directives the joiner calls different:
        # gfortran must reject them or build a different parse tree.
        chosen = [(sig, one) for sig in sorted(bad)
                  for one in bad[sig][:GF_BAD_PER_SIG]]
        if chosen:
            rc_in, _dump, err_in = _gfortran(
                workdir, "unit.f90",
                [L.unit(head, one[0], n) for n, (_s, one) in enumerate(chosen)])
            if rc_in != 0:
                raise RuntimeError(f"gfortran rejects generated input lines "
                                   f"of head {head}: {err_in[:2000]}")
            units = [L.unit(head, one[1], n)
                     for n, (_s, one) in enumerate(chosen)]
            _rc, _dump, err_out = _gfortran(workdir, "unit.f90", units)
            rejected = _units_with_errors(units, err_out)
            for num, (sig, (line, out, payload)) in enumerate(chosen):
                if num not in rejected:
                    # No diagnostic inside this unit: compile it alone.
                    _rc, dump_in, _err = _gfortran(workdir, "unit.f90",
                                                   [L.unit(head, line, 0)])
                    rc_out, dump_out, _err = _gfortran(
                        workdir, "unit.f90", [L.unit(head, out, 0)])
                    if rc_out == 0 and dump_out == dump_in:
                        raise RuntimeError(
                            f"joiner says the program changed ({sig}) but "
                            f"gfortran builds the same parse tree: {payload} "
                            f"output={out!r}")
                validated += 1
                name = "gf:confirmed-different"
                classes[name] = classes.get(name, 0) + 1
    finally:
        shutil.rmtree(workdir, ignore_errors=True)
    return {"evals": 0, "nontrivial": 0, "validated": validated,
            "classes": classes, "viol": viol,
            "extra": {"fparser_reader_agreements": fparser_checked}}


def _units_with_errors(units, diagnostics):
    """Indices of the units that contain the location of a gfortran error
    (the file is the support module followed by the units)."""
    import re
    starts = []
    line_no = L.SUPPORT_MODULE.count("\n") + 1
    for text in units:
        starts.append(line_no)
        line_no += text.count("\n")
    hit = set()
    blocks = re.split(r"(?m)^unit\.f90:(\d+):\d+:", diagnostics)
    # blocks = [preamble, line, text, line, text, ...]
    for pos in range(1, len(blocks) - 1, 2):
        if "Error" not in blocks[pos + 1]:
            continue
        where = int(blocks[pos])
        for num in range(len(starts) - 1, -1, -1):
            if starts[num] <= where:
                hit.add(num)
                break
    return hit


def _first_culprit(workdir, head, part, slot):
    for line, outs in part:
        if slot not in outs:
            continue
        _rc, dump_in, _err = _gfortran(workdir, "unit.f90",
                                       [L.unit(head, line, 0)])
        rc_out, dump_out, err = _gfortran(workdir, "unit.f90",
                                          [L.unit(head, outs[slot], 0)])
        if rc_out != 0 or dump_out != dump_in:
            return f"input={line!r} output={outs[slot]!r} rc={rc_out} {err[:600]}"
    return "(no single culprit found)"


def run_case(case):
    if case["kind"] == "gf":
        return _run_gf(case)
    return _run_enum(case)


def replay(case):
    line = L.build(case["head"], case["indent"], case["sep"],
                   tuple(case["pattern"]), case["tail"], case["count"])
    canon_in = J.canonical(line)
    outcome, out, verdict = judge(line, case["head"], case["tail"],
                                  case["limit"], canon_in)
    res = {"line": line, "limit": case["limit"], "outcome": outcome,
           "output": out, "viol": []}
    if verdict:
        res["viol"].append({"sig": verdict[0], "msg": verdict[1]})
    return res
