"""C05 Accepted loop transformations preserve serial semantics.

Every program of the enumerated loop-program corpus x every target node x
every generic loop transformation (x small option sets, never `force`) is
applied by the real PSyclone code to a fresh parse; every accepted result is
executed by the E1 reference interpreter on every input n = 0..5 and its
observable store compared with the original's.
"""
from mc.gen import loopprogs

ID = "C05"
LEVEL = "model_checking"
EXHAUSTIVE = True
CASE_TIMEOUT = 1800
RULE = ("programs = mc.gen.loopprogs.corpus(tier) (single loops, statement pairs, "
        "adjacent loop pairs, perfect/imperfect/triangular nests, bound expressions, "
        "conditional returns); attempts = every Loop/Assignment/adjacent-loop pair/"
        "Routine x {LoopFuse(both argument orders), LoopSwap, ChunkLoop(chunksize "
        "2,3[,1,4]), LoopTiling2D(tilesize 2,3), Hoist, HoistLoopBoundExpr, "
        "ReplaceInductionVariables, FoldConditionalReturnExpressions}; inputs n=0..5; "
        "an attempt is non-trivial when the transformation accepted it (the result is "
        "then executed on every admissible input)")
ASSUMPTIONS = [
    "E1 (mc/fortsem) is the reference semantics; exact arithmetic; an input on which "
    "the ORIGINAL program is undefined (out of bounds, undefined value steering "
    "control) is inadmissible and skipped",
    "observables: all dummy arguments (n,m,k,t,u,a,b,c,q); loop variables and "
    "transformation-introduced temporaries are locals and are not observed; a "
    "location left undefined by the original program is not compared",
    "exceptions other than TransformationError are counted, not judged",
]
BLOCK = 6


def bounds(tier):
    return {"inputs": "n in 0..5, m=n+1, k=2", "programs": len(_corpus(tier)),
            "chunksizes": [2, 3] if tier == "quick" else [1, 2, 3, 4],
            "tilesizes": [2, 3]}


_CORPUS = {}


def _corpus(tier):
    if tier not in _CORPUS:
        import os
        only = os.environ.get("C05_ONLY")   # development aid: key prefix filter
        _CORPUS[tier] = [c for c in loopprogs.corpus(tier)
                         if not only or c[0].startswith(tuple(only.split(",")))]
    return _CORPUS[tier]


def cases(tier):
    progs = _corpus(tier)
    for start in range(0, len(progs), BLOCK):
        yield {"key": f"blk{start:06d}", "start": start,
               "stop": min(len(progs), start + BLOCK)}


def init_worker(tier):
    _corpus(tier)
    global _TIER
    _TIER = tier


_TIER = "quick"


def attempts_for(tree, tier):
    """All (transformation, target, options) attempts for one parsed program."""
    from psyclone.psyir import nodes as N
    from psyclone.psyir import transformations as T
    from mc.fortsem.transcheck import Attempt, nth
    out = []
    loops = tree.walk(N.Loop)
    chunks = [2, 3] if tier == "quick" else [1, 2, 3, 4]
    for idx, _loop in enumerate(loops):
        out.append(Attempt(f"LoopSwapTrans@L{idx}", T.LoopSwapTrans, nth(N.Loop, idx)))
        for size in chunks:
            out.append(Attempt(f"ChunkLoopTrans({size})@L{idx}", T.ChunkLoopTrans,
                               nth(N.Loop, idx), {"chunksize": size}))
        for size in (2, 3):
            out.append(Attempt(f"LoopTiling2DTrans({size})@L{idx}",
                               T.LoopTiling2DTrans, nth(N.Loop, idx),
                               {"tilesize": size}))
        out.append(Attempt(f"HoistLoopBoundExprTrans@L{idx}",
                           T.HoistLoopBoundExprTrans, nth(N.Loop, idx)))
        out.append(Attempt(f"ReplaceInductionVariablesTrans@L{idx}",
                           T.ReplaceInductionVariablesTrans, nth(N.Loop, idx)))
    # adjacent sibling loops, both argument orders
    for idx, loop in enumerate(loops):
        sib = loop.parent.children
        pos = loop.position
        if pos + 1 < len(sib) and isinstance(sib[pos + 1], N.Loop):
            jdx = loops.index(sib[pos + 1])

            def loc_fwd(tree2, a=idx, b=jdx):
                lps = tree2.walk(N.Loop)
                return (lps[a], lps[b])

            def loc_rev(tree2, a=idx, b=jdx):
                lps = tree2.walk(N.Loop)
                return (lps[b], lps[a])
            out.append(Attempt(f"LoopFuseTrans@L{idx},L{jdx}", T.LoopFuseTrans, loc_fwd))
            out.append(Attempt(f"LoopFuseTrans@L{jdx},L{idx}", T.LoopFuseTrans, loc_rev))
    for idx, assign in enumerate(tree.walk(N.Assignment)):
        if assign.ancestor(N.Loop) is not None:
            out.append(Attempt(f"HoistTrans@A{idx}", T.HoistTrans,
                               nth(N.Assignment, idx)))
    if tree.walk(N.Return):
        out.append(Attempt("FoldConditionalReturnExpressionsTrans@R0",
                           T.FoldConditionalReturnExpressionsTrans,
                           nth(N.Routine, 0)))
    return out


def _inputs():
    from mc.fortsem import equiv
    return [(f"n={n}", (lambda n=n: equiv.std_inputs(n))) for n in range(0, 6)]


def fold_negative_steps(tree):
    """Program variant only the PSyIR API can express: a loop step written
    as -(literal) becomes a negative Literal (as PSyclone's own tests and
    transformations create it)."""
    from psyclone.psyir import nodes as N
    for loop in tree.walk(N.Loop):
        step = loop.step_expr
        if isinstance(step, N.UnaryOperation) and \
                step.operator == N.UnaryOperation.Operator.MINUS and \
                isinstance(step.children[0], N.Literal):
            lit = step.children[0]
            step.replace_with(N.Literal("-" + lit.value, lit.datatype))


def sig_fn(tname, label, key, bad):
    """Signature of a violation.  Hoisting-style transformations that are
    wrong exactly on the zero-trip input (n=0) share one mechanism-level
    signature per transformation; everything else is identified by the
    specific (transformation, target, options, program, failing inputs)."""
    # inputs on which some loop of the program has zero trips: n=0, and n=1
    # for the header "2..n" (key tag up2n)
    zero_trip = {"n=0"} | ({"n=1"} if "up2n" in key else set())
    if set(bad) <= zero_trip and \
            tname in ("HoistTrans", "ReplaceInductionVariablesTrans"):
        return f"{tname}|moved-assignment-executes-for-zero-trip-loop(only zero-trip inputs wrong)"
    return f"{label}|{key}|bad@{','.join(bad)}"


def run_case(case):
    from mc.fortsem import transcheck
    progs = _corpus(_TIER)
    results = []
    for key, src in progs[case["start"]:case["stop"]]:
        results.append(transcheck.check_program(
            key, src, lambda tree: attempts_for(tree, _TIER), _inputs(), sig_fn=sig_fn))
        if ", -" in src:
            results.append(transcheck.check_program(
                key + "~negstep", src, lambda tree: attempts_for(tree, _TIER),
                _inputs(), prepare=fold_negative_steps, sig_fn=sig_fn))
    return transcheck.merge_results(results)


def replay(case):
    from mc.fortsem import transcheck
    label = case["label"]
    res = transcheck.check_program(
        case["key"], case["src"],
        lambda tree: [a for a in attempts_for(tree, "thorough") if a.label == label],
        _inputs(), sig_fn=sig_fn,
        prepare=fold_negative_steps if case["key"].endswith("~negstep") else None)
    return res
