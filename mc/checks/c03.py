"""C03 Re-writing is stable after one round trip.

For every program of a bounded, deterministic corpus (the C01 statement
programs + a declaration grammar) the real reader and writer are run three
times:  t1 = W(R(src)), t2 = W(R(t1)), t3 = W(R(t2)).  Required: t1 == t2 and
t2 == t3 byte for byte, and the multiset of comment / directive / CodeBlock
lines of t1 equals that of t2.  No interpreter, no compiler.
"""
import difflib
import os
import re

from mc import c01_rw, runner
from mc.gen import fprog

ID = "C03"
LEVEL = "model_checking"
EXHAUSTIVE = True
CASE_TIMEOUT = 14400
RULE = ("programs = (a) statement programs: every template of the C01 grammar "
        "alone on each host it supports, core containers x core templates nested "
        "(thorough: + core x core sequences, mini-core containers x every template, "
        "every pair with a probe member, triples over the mini core); (b) declaration "
        "programs: module dmod built from every compatible set of <= 2 (thorough "
        "<= 3 over the core features) declaration features x statement snippets; "
        "each is read and re-written three times by the real FortranReader / "
        "FortranWriter; a program is non-trivial when the reader accepts it (pass 1 "
        "produced text); distinct = distinct program key")
ASSUMPTIONS = [
    "this version's FortranReader has no option to keep comments or directives "
    "(they are dropped by pass 1); the comment / directive multiset requirement is "
    "therefore checked on what the writer itself emits (CodeBlock banner comments, "
    "verbatim CodeBlock lines, directives inside CodeBlocks)",
    "a program rejected by pass 1 is outside the property's quantifier (counted); "
    "a failure of pass 2 or 3 (the reader or writer rejecting PSyclone's own "
    "output) is a failure of the property",
]

ST_BLOCK = 12
DECL_BLOCK = 40


def bounds(tier):
    stm = _statement_specs(tier)
    dcl = fprog.decl_specs(tier)
    classes = {}
    for cls, _spec in stm:
        classes[cls] = classes.get(cls, 0) + 1
    for cls, _f, _s in dcl:
        classes[cls] = classes.get(cls, 0) + 1
    return {"statement_templates": len(fprog.ORDER),
            "core_templates": len(fprog._flag("c")) - (
                len(fprog.QUICK_CORE_DROPPED) if tier == "quick" else 0),
            "mini_core": len(fprog._flag("k")),
            "declaration_features": len(fprog.DECL_ORDER),
            "snippets": len(fprog.DECL_SNIPPETS),
            "programs_per_class": classes, "passes": 3,
            "max_sequence": 2 if tier == "quick" else 3, "max_nesting": 2,
            "max_features": 2 if tier == "quick" else 3}


QUICK_ST_CLASSES = ("s1", "n2core")


def _statement_specs(tier):
    return [(cls, spec) for cls, spec in fprog.statement_specs(tier)
            if tier == "thorough" or cls in QUICK_ST_CLASSES]


def cases(tier):
    # development aid only (mutant runs): VERIF_C03_CLASSES=s1,d1 restricts the
    # enumeration to the named size classes; registered runs never set it
    only = [c for c in os.environ.get("VERIF_C03_CLASSES", "").split(",") if c]
    for case in _cases(tier):
        if not only or case["key"].split(":")[1] in only:
            yield case


def _cases(tier):
    stm = _statement_specs(tier)
    by_cls = {}
    for cls, spec in stm:
        by_cls.setdefault(cls, []).append(fprog.prog_key(spec))
    for cls, keys in by_cls.items():
        for start in range(0, len(keys), ST_BLOCK):
            yield {"key": f"st:{cls}:{start // ST_BLOCK:04d}", "kind": "st",
                   "progs": keys[start:start + ST_BLOCK]}
    by_cls = {}
    for cls, feats, snips in fprog.decl_specs(tier):
        by_cls.setdefault(cls, []).append([list(feats), list(snips)])
    for cls, progs in by_cls.items():
        for start in range(0, len(progs), DECL_BLOCK):
            yield {"key": f"dc:{cls}:{start // DECL_BLOCK:04d}", "kind": "dc",
                   "progs": progs[start:start + DECL_BLOCK]}


_SCRATCH = None


def init_worker(_tier):
    global _SCRATCH
    _SCRATCH = runner.scratch_dir("c03")
    os.chdir(_SCRATCH)
    c01_rw.init()
    import atexit
    import shutil
    atexit.register(shutil.rmtree, _SCRATCH, True)


# ---------------------------------------------------------------------------
# the oracle
# ---------------------------------------------------------------------------
def special_lines(text):
    """Sorted multiset of comment / directive lines and of the lines that
    belong to CodeBlocks (the lines between a CodeBlock banner and the next
    writer-formatted line cannot be told apart reliably, so every line that is
    a comment or a directive is taken, plus every line containing upper-case
    keywords as fparser prints CodeBlock statements)."""
    out = []
    for line in text.split("\n"):
        strip = line.strip()
        if strip.startswith("!"):
            out.append(strip)
        elif re.match(r"^(\d+\s+)?[A-Z]{2,}", strip):
            out.append(strip)
    return sorted(out)


def _norm(line):
    return re.sub(r"\s+", " ", line.strip())[:70]


def first_difference(one, two):
    """-> short, stable description of the first differing hunk."""
    lone, ltwo = one.split("\n"), two.split("\n")
    matcher = difflib.SequenceMatcher(a=lone, b=ltwo, autojunk=False)
    for tag, i1, i2, j1, j2 in matcher.get_opcodes():
        if tag == "equal":
            continue
        old = [_norm(x) for x in lone[i1:i2] if x.strip()]
        new = [_norm(x) for x in ltwo[j1:j2] if x.strip()]
        if not old and not new:
            return "blank-lines"
        if old and not new:
            return f"lost[{old[0]}]"
        if new and not old:
            return f"added[{new[0]}]"
        return f"changed[{old[0]} -> {new[0]}]"
    return "none"


def judge(source):
    """-> (class, kind or None, detail dict)."""
    st1, t1, info1 = c01_rw.read_write(source)
    if st1 != "ok":
        return f"rejected:{info1['type']}", None, {"pass1": info1}
    st2, t2, info2 = c01_rw.read_write(t1)
    if st2 != "ok":
        return "violation", (f"pass2-{info2['stage']}-fails:{info2['type']}@"
                             f"{info2['where']}"), {"t1": t1, "error": info2}
    if t1 != t2:
        kind = "unstable:" + first_difference(t1, t2)
        return "violation", kind, {"t1": t1, "t2": t2}
    if special_lines(t1) != special_lines(t2):
        return "violation", "special-lines-differ", {"t1": t1, "t2": t2}
    st3, t3, info3 = c01_rw.read_write(t2)
    if st3 != "ok":
        return "violation", (f"pass3-{info3['stage']}-fails:{info3['type']}@"
                             f"{info3['where']}"), {"t2": t2, "error": info3}
    if t2 != t3:
        return "violation", "unstable-pass3:" + first_difference(t2, t3), \
            {"t2": t2, "t3": t3}
    return "stable", None, {"t1": t1}


_SINGLE = {}


def _single_kind(kind, ident):
    """Verdict kind of a one-template / one-feature program (cached)."""
    memo = (kind, ident)
    if memo not in _SINGLE:
        if kind == "st":
            host, name = ident
            prog = fprog.build({"host": host, "items": [[name, None]]})
        elif kind == "snip":
            prog = fprog.build_decl((), (ident,))
        else:
            prog = fprog.build_decl((ident,), ())
        _SINGLE[memo] = judge(prog["source"])[1]
    return _SINGLE[memo]


def attribute(kind, prog, vkind):
    """Smallest part of the program that shows the same failure alone."""
    if kind == "st":
        spec = prog["spec"]
        names = []
        for item in spec["items"]:
            names += [n for n in item if n]
        if len(names) == 1:
            return names[0]
        for name in names:
            host = spec["host"]
            if host not in fprog._hosts(name):
                host = fprog._hosts(name)[0]
            if _single_kind("st", (host, name)) == vkind:
                return name
        return "+".join(fprog.item_key(it) for it in spec["items"])
    feats, snips = prog["feats"], prog["snips"]
    if len(feats) + len(snips) <= 1:
        return ",".join(feats + snips) or "base"
    for feat in feats:
        if _single_kind("dc", feat) == vkind:
            return feat
    for snip in snips:
        if _single_kind("snip", snip) == vkind:
            return snip
    return ",".join(feats) + ("|" + ",".join(snips) if snips else "")


def _check(kind, payload):
    if kind == "st":
        prog = fprog.build(fprog.parse_key(payload))
    else:
        prog = fprog.build_decl(tuple(payload[0]), tuple(payload[1]))
    cls, vkind, detail = judge(prog["source"])
    viol = None
    if cls == "violation":
        culprit = attribute(kind, prog, vkind)
        sig = f"{culprit}:{vkind}"
        shown = {k: v for k, v in detail.items() if k != "error"}
        msg = (f"program {prog['key']}: {vkind}"
               + (f" ({detail['error']['type']}: {detail['error']['msg']})"
                  if "error" in detail else "")
               + "; source:\n" + prog["source"]
               + "".join(f"\n--- {name}:\n{text}" for name, text in shown.items()))
        viol = {"key": prog["key"], "sig": sig, "msg": msg,
                "group": culprit,
                "case": {"kind": kind, "prog": payload, "source": prog["source"]}}
    return prog, cls, viol, detail


def run_case(case):
    classes = {}
    viol = []
    nontrivial = 0
    passes = 0
    sample = None
    rejected = []
    small = case["key"].split(":")[1] in ("s1", "d0", "d1")
    for payload in case["progs"]:
        prog, cls, vio, detail = _check(case["kind"], payload)
        classes[cls] = classes.get(cls, 0) + 1
        if small and cls.startswith("rejected"):
            info = detail["pass1"]
            rejected.append(f"{prog['key']} {info['stage']}:{info['type']}@"
                            f"{info['where']}: {info['msg'][:120]}")
        if not cls.startswith("rejected"):
            nontrivial += 1
            passes += 3
        else:
            passes += 1
        if vio:
            viol.append(vio)
        if sample is None and cls == "stable":
            sample = {"program": prog["key"], "source_lines":
                      prog["source"].count("\n"),
                      "t1_lines": detail["t1"].count("\n"), "verdict": cls}
    count = len(case["progs"])
    res = {"evals": count, "nontrivial": nontrivial, "states": count,
           "transitions": passes, "validated": nontrivial, "classes": classes,
           "viol": viol}
    if rejected:
        res["extra"] = {"rejected_small_programs": rejected}
    if sample:
        res["sample"] = sample
    return res


def _remove_dead_scratch(tag):
    """Pool workers are terminated without running their exit handlers: the
    parent removes the scratch directories of processes that no longer exist."""
    import glob
    import shutil as _shutil
    base = os.path.dirname(runner.scratch_dir(tag + "probe"))
    _shutil.rmtree(os.path.join(base, f"verif.{tag}probe.{os.getpid()}"), True)
    for path in glob.glob(os.path.join(base, f"verif.{tag}.*")):
        try:
            pid = int(path.rsplit(".", 1)[1])
            os.kill(pid, 0)
        except (ValueError, ProcessLookupError):
            _shutil.rmtree(path, True)
        except PermissionError:
            pass


def finish(_tier, _totals):
    _remove_dead_scratch("c03")
    return {}


def replay(case):
    _prog, cls, vio, _detail = _check(case["kind"], case["prog"])
    return {"verdict": cls, "viol": [vio] if vio else []}
