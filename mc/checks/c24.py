"""C24 Generated algorithm and PSy layers agree on invoke arguments.

LFRic algorithm programs are generated as text from an explicit description
(which actual argument is written at which kernel-argument position of which
invoke): every way of repeating field / scalar / stencil-extent arguments
within and across the kernels of an invoke (all set partitions of the
argument positions), spelled with case / blank variations, as array elements,
structure components and literals, in named and unnamed invokes.  Each program
goes through `psyclone.generator.generate` twice, once per algorithm-layer code
path (fparser2 rewrite `alg_gen.Alg`, and the PSyIR path selected by
`generator.LFRIC_TESTING`).  Oracle (1), static: the generated call and the PSy
routine are read as text and compared with the description; oracle (2),
executed: accepted programs are compiled against the bundled LFRic stub
infrastructure with simple kernels, run, and the final data compared with the
sequential meaning of each invoke.
"""
import atexit
import contextlib
import copy
import io
import os
import shutil

from mc import c24_gen as G
from mc import c24_parse as P
from mc import c24_dyn as D

ID = "C24"
LEVEL = "model_checking"
EXHAUSTIVE = True
CASE_TIMEOUT = 7200
RULE = ("an element is one algorithm program: for every kernel sequence of the tier, "
        "every set partition of its field-argument positions (positions of one user "
        "kernel kept distinct except in the 1-kernel class, where PSyclone must refuse "
        "them) is written out with actual arguments from palettes of plain names, "
        "array elements, structure components and name-clash candidates, spelled "
        "identically or with case/blank variations, combined with the partitions x "
        "palettes of the scalar, reduction-scalar and stencil-extent positions "
        "(rotating with the field partition, and as a full product on the all-distinct "
        "field partition); plus every assignment of {unnamed, \"x\", \"X\", \"y\"} to "
        "1..n invokes with 3 contents each.  One evaluation = one element put through "
        "both code paths; it is non-trivial when PSyclone generates code on at least "
        "one path and some actual (text modulo case and blanks) stands at two or more "
        "argument positions of one invoke or the program has several invokes; distinct "
        "= distinct element key.  transitions = kernel-argument positions resolved in "
        "generated PSy layers; traces_validated = invokes executed and compared.")
ASSUMPTIONS = [
    "two actual arguments are the same argument iff their texts agree modulo case and "
    "blanks (the generator never writes two different designators of one object: "
    "i = 3 while only f(1), f(2), f(i) are used)",
    "a repeated actual must be served by ONE PSy-layer dummy and distinct actuals by "
    "distinct dummies; a dummy that is not used at any kernel-argument position is "
    "counted, not judged",
    "the PSy layer is read as text: proxies (`p = d%get_proxy()`), data pointers "
    "(`x => p%data`), stencil maps and the kernel-call / built-in statements in textual "
    "order (= invoke order, no transformation is applied)",
    "clean refusals (PSycloneError other than InternalError, NotImplementedError, "
    "TypeError) and crashes are counted per path, never judged",
    "executed runs: every field lives on one lowest-order W3 space of the 3x3x3 unit-test "
    "mesh whatever space the kernel metadata names (the PSy layer takes dofmaps from the "
    "fields), kernel bodies are the harness' own (metadata copied from testkern_mod / "
    "testkern_stencil_mod), values are integers < 2**45 so IEEE doubles are exact; "
    "invokes whose reference values leave that range are skipped",
    "three pure parsing steps that dominate the cost of generate() are memoised in the "
    "workers: the pyparsing parse of a kernel's meta_args text (deep copy per use), the "
    "fparser1 parse of PSyclone's own built-in metadata file (tree only read) and "
    "repeated ParserFactory().create(std) calls with an unchanged std; generated texts "
    "of 291 elements x 2 paths were identical with the memoisation switched off "
    "(C24_NO_MEMO=1)",
    "the statically judged program holds only declarations and the invoke(s); the "
    "executed programs additionally reset all data before and report it after every "
    "invoke and are judged statically again",
    "distributed_memory=False only",
]

PACK = 8
PATHS = ("f2py", "psyir")

# tier -> description of the corpus
SEQS_1 = list("sxiptc")


def _seqs(num):
    import itertools
    return ["".join(t) for t in itertools.product("sxiptc", repeat=num)]


def _fslots(seq):
    return sum(1 for _k, _p, kind in G.slots_of(seq) if kind == G.F)


TRIPLES_QUICK = ["sip", "psi", "isx"]
TRIPLES_THOROUGH = [s for s in _seqs(3) if _fslots(s) <= 5] + ["isx"]

TIERS = {
    "quick": {
        "one": SEQS_1,
        "rot": [s for s in _seqs(2) if _fslots(s) <= 5] + ["xx", "ic", "it"],
        "full": [],
        "rot3": TRIPLES_QUICK,
        "naming": [1, 2],
        "naming_contents": {1: "BKD", 2: "BD", 3: "BD"},
        "dyn_classes": ["one"],
        "dyn_naming": [],
    },
    "thorough": {
        "one": SEQS_1,
        "rot": [s for s in _seqs(2) if _fslots(s) > 6],
        "full": [s for s in _seqs(2) if _fslots(s) <= 6],
        "rot3": TRIPLES_THOROUGH,
        "naming": [1, 2, 3],
        "naming_contents": {1: "BKD", 2: "BKD", 3: "BD"},
        "dyn_classes": ["one", "full", "rot3"],
        "dyn_naming": [1, 2],
    },
}


def bounds(tier):
    cfg = TIERS[tier]
    return {
        "kernels": {k: v[0] for k, v in G.KERNELS.items()},
        "one_kernel_sequences_all_partitions_all_palettes": cfg["one"],
        "two_kernel_sequences_all_palettes": cfg["full"],
        "two_kernel_sequences_rotating_palette": cfg["rot"],
        "three_kernel_sequences_rotating_palette": cfg["rot3"],
        "invokes_per_program_naming": cfg["naming"],
        "names": [n or "<unnamed>" for n in G.NAME_CHOICES],
        "field_palettes": G.PALETTES,
        "scalar_palettes": G.SCALAR_PALETTES,
        "sum_palettes": G.SUM_PALETTES,
        "extent_palettes": G.EXTENT_PALETTES,
        "spellings": G.ALL_SPELL,
        "code_paths": list(PATHS),
        "executed_classes": cfg["dyn_classes"],
        "executed_naming_programs": cfg["dyn_naming"],
        "invokes_per_compiled_program": PACK,
    }


# ---------------------------------------------------------------------------
# enumeration
# ---------------------------------------------------------------------------
def _classes(tier):
    """[(class tag, [elements], executed?)] smallest first."""
    cfg = TIERS[tier]
    out = []
    for mode, tag in (("one", "one"), ("rot", "rot"), ("full", "full"),
                      ("rot", "rot3")):
        for seq in cfg[tag]:
            out.append((f"{tag}.{seq}", G.single_invoke_elements(seq, mode),
                        tag in cfg["dyn_classes"]))
    for num in cfg["naming"]:
        out.append((f"naming{num}",
                    G.naming_elements(num, cfg["naming_contents"][num]),
                    num in cfg["dyn_naming"]))
    return out


def cases(tier):
    for tag, elems, dyn in _classes(tier):
        for start in range(0, len(elems), PACK):
            yield {"key": f"{tag}:{start}", "cls": tag, "dyn": dyn,
                   "elements": elems[start:start + PACK]}


# ---------------------------------------------------------------------------
# scratch / base build
# ---------------------------------------------------------------------------
_ROOT = None
_SIZES = None
_WORK = None


def _repo():
    return os.environ.get("VERIF_REPO", "/repo")


def _root():
    """Scratch root holding the kernel directory handed to PSyclone."""
    global _ROOT
    if _ROOT is None:
        from mc import runner
        _ROOT = runner.scratch_dir("c24")
        atexit.register(_cleanup_root, os.getpid(), _ROOT)
        D.write_kernels(os.path.join(_ROOT, "kern"))
    return _ROOT


def _base():
    """Stub infrastructure, support module, compiled kernels, calibration."""
    global _SIZES
    if _SIZES is None:
        _SIZES = D.build_base(_root(), _repo())
    return _SIZES


def _cleanup_root(pid, path):
    if os.getpid() == pid:
        D.cleanup(path)


def prepare(_tier):
    _base()


def finish(_tier, _totals):
    global _ROOT, _SIZES
    if _ROOT is not None:
        D.cleanup(_ROOT)
        _ROOT = None
        _SIZES = None
    return {}


def _workdir():
    global _WORK
    if _WORK is None or not os.path.isdir(_WORK):
        _WORK = os.path.join(_root(), f"w{os.getpid()}")
        os.makedirs(_WORK, exist_ok=True)
        os.chdir(_WORK)
    return _WORK


# ---------------------------------------------------------------------------
# worker: running PSyclone
# ---------------------------------------------------------------------------
def init_worker(_tier):
    from psyclone.configuration import Config
    Config.get()
    if not os.environ.get("C24_NO_MEMO"):
        _memoise_metadata_parser()
        _memoise_builtin_definitions()
        _memoise_parser_factory()
    _workdir()


def _memoise_builtin_definitions():
    """`BuiltInKernelTypeFactory.create` re-parses PSyclone's own 3000-line
    built-in metadata file with fparser1 for every built-in call of every
    invoke (0.13 s each).  The tree is only read afterwards; keep one tree per
    (file, mtime, size).  (Checked once during development: generated texts
    of 300 elements are identical with C24_NO_MEMO=1.)"""
    import psyclone.parse.kernel as pk
    if isinstance(pk.fpapi, _ApiProxy):
        return
    pk.fpapi = _ApiProxy(pk.fpapi)


class _ApiProxy:
    def __init__(self, mod):
        self._mod = mod
        self._cache = {}

    def parse(self, fname, *args, **kwargs):
        if args or kwargs or not str(fname).endswith("_builtins_mod.f90"):
            return self._mod.parse(fname, *args, **kwargs)
        stat = os.stat(fname)
        key = (str(fname), stat.st_mtime_ns, stat.st_size)
        if key not in self._cache:
            self._cache[key] = self._mod.parse(fname)
        return self._cache[key]

    def __getattr__(self, name):
        return getattr(self._mod, name)


def _memoise_parser_factory():
    """fparser's ParserFactory().create(std) only (re)builds fparser's class
    tables for the requested standard; calling it again with the standard
    that is already active is a no-op apart from the time (5 ms, ~14 calls per
    generate): skip exactly those repeated calls (same seam as C28)."""
    from fparser.two.parser import ParserFactory
    if getattr(ParserFactory.create, "_verif_memo", False):
        return
    orig = ParserFactory.create
    state = {}

    def create(self, std=None):
        if "std" in state and state["std"] == std:
            return state["result"]
        result = orig(self, std)
        state["std"], state["result"] = std, result
        return result

    create._verif_memo = True
    ParserFactory.create = create


def _memoise_metadata_parser():
    """`psyclone.parse.kernel.getkerneldescriptors` parses the `meta_args`
    initialiser text with a pyparsing grammar (0.35 s per kernel call, 80% of
    the cost of `generate`).  The result is a pure function of that text; keep
    one result per text and hand out deep copies."""
    import psyclone.parse.kernel as pk
    if isinstance(pk.expr, _ExprProxy):
        return
    pk.expr = _ExprProxy(pk.expr)


class _Memo:
    def __init__(self, real):
        self._real = real
        self._cache = {}

    def parseString(self, text, *args, **kwargs):      # pylint: disable=invalid-name
        if args or kwargs:
            return self._real.parseString(text, *args, **kwargs)
        if text not in self._cache:
            self._cache[text] = self._real.parseString(text)
        return copy.deepcopy(self._cache[text])

    def __getattr__(self, name):
        return getattr(self._real, name)


class _ExprProxy:
    def __init__(self, mod):
        self._mod = mod
        self.FORT_EXPRESSION = _Memo(mod.FORT_EXPRESSION)

    def __getattr__(self, name):
        return getattr(self._mod, name)


def _reset_singletons():
    from psyclone.configuration import Config
    from psyclone.parse import ModuleManager
    Config._instance = None                       # pylint: disable=protected-access
    ModuleManager._instance = None                # pylint: disable=protected-access


def _generate(path, text):
    """("ok", alg, psy) | ("refused", type, msg) | ("crash", type, msg)."""
    import psyclone.generator as gen
    from psyclone.errors import PSycloneError, InternalError
    work = _workdir()
    fname = os.path.join(work, "c24_alg.f90")
    with open(fname, "w", encoding="utf-8") as out:
        out.write(text)
    _reset_singletons()
    old = gen.LFRIC_TESTING
    gen.LFRIC_TESTING = path == "psyir"
    sink = io.StringIO()
    try:
        with contextlib.redirect_stdout(sink), contextlib.redirect_stderr(sink):
            alg, psy = gen.generate(fname, api="dynamo0.3",
                                    kernel_paths=[os.path.join(_root(), "kern")],
                                    distributed_memory=False)
            return ("ok", str(alg), str(psy))
    except InternalError as err:
        return ("crash", type(err).__name__, str(err)[:400])
    except (PSycloneError, NotImplementedError, TypeError) as err:
        return ("refused", type(err).__name__, str(err)[:400])
    except SystemExit as err:
        return ("crash", "SystemExit", str(err)[:400])
    except Exception as err:                      # pylint: disable=broad-except
        return ("crash", type(err).__name__, str(err)[:400])
    finally:
        gen.LFRIC_TESTING = old


# ---------------------------------------------------------------------------
# judging
# ---------------------------------------------------------------------------
def _naming_form(inv):
    kerns = inv["kernels"]
    if len(kerns) > 1:
        cont = "multi"
    elif G.LETTER_OF[kerns[0]["k"].lower()] in G.USER:
        cont = "1kernel"
    else:
        cont = "1builtin"
    return ("named" if inv.get("name") is not None else "unnamed") + "-" + cont


def _sig(path, idx, kind, where, invokes):
    if where is not None:
        _let, pos, skind, spelled = where
        return f"st:{path}:{kind}:{G.spelling_class(skind, spelled)}"
    if idx is not None and kind in ("no-psy-routine", "ambiguous-psy-routine"):
        return f"st:{path}:{kind}:{_naming_form(invokes[idx])}"
    return f"st:{path}:{kind}"


def _static(path, gen_res, invokes):
    """(violations [(sig, msg)], resolved positions, unused dummies)."""
    _st, alg, psy = gen_res
    found = P.judge_program(alg, psy, invokes)
    viol = []
    for idx, kind, where, msg in found:
        viol.append((_sig(path, idx, kind, where, invokes), msg))
    npos = sum(len(k["args"]) for inv in invokes for k in inv["kernels"])
    return viol, npos


def _show(invokes):
    return " ; ".join(G.invoke_text(inv).replace("&\n", " ").replace("  ", " ")
                      for inv in invokes)


def _judge_element(elem, classes, examples):
    """Runs both paths; returns (viol, per-path result, positions)."""
    invokes = elem["invokes"]
    text = G.program_text(invokes, observe=False)
    viol = []
    results = {}
    positions = 0
    for path in PATHS:
        res = _generate(path, text)
        results[path] = res
        if res[0] != "ok":
            cls = f"{path}:{res[0]}:{res[1]}"
            classes[cls] = classes.get(cls, 0) + 1
            if cls not in examples:
                examples[cls] = (f"{elem['key']} :: {_show(invokes)} :: "
                                 + _strip_paths(res[2])[:200])
            continue
        found, npos = _static(path, res, invokes)
        positions += npos
        cls = f"{path}:generated" + (":static-violation" if found else "")
        classes[cls] = classes.get(cls, 0) + 1
        seen = set()
        for sig, msg in found:
            if sig in seen:
                continue
            seen.add(sig)
            viol.append({"key": f"{elem['key']}@{path}", "sig": sig,
                         "msg": f"[{path}] {_show(invokes)} :: {msg}",
                         "case": {"element": elem, "path": path, "dyn": False}})
        results[path] = res + (bool(found),)
    return viol, results, positions


def _dyn_sig(path, stage):
    return f"dyn:{path}:{stage}"


def _execute(invokes, path, res, owners, classes, sizes, psy_from=None):
    """Compile + run one generated program; returns (violations, n compared,
    build dir) or (None, (stage, log), None) when it does not build/run.
    owners[i] = element that invoke i belongs to (for keys / replay)."""
    sub = os.path.join(_workdir(), "x_" + path)
    shutil.rmtree(sub, ignore_errors=True)
    status, log = D.compile_and_run(_root(), sub, res[1], res[2], psy_from=psy_from)
    viol = []
    compared = 0
    if status != "ok":
        return None, (status, log), None
    report = D.parse_report(log)
    for idx, inv in enumerate(invokes):
        if idx not in report:
            raise RuntimeError(f"no report for invoke {idx} in\n{log[-2000:]}")
        diffs = D.compare(inv, report[idx], sizes)
        if diffs is None:
            _count(classes, "dyn:skipped-overflow")
            continue
        compared += 1
        if diffs:
            what, exp, got = diffs[0]
            elem = owners[idx]
            kind = "field" if what in G.FIELD_SPELL else "scalar"
            viol.append({
                "key": f"{elem['key']}@{path}:run",
                "sig": _dyn_sig(path, f"wrong-{kind}-data"),
                "msg": f"[{path}] executed {_show([inv])}: {len(diffs)} datum/data "
                       f"differ from the sequential meaning of the invoke, first "
                       f"{what}: expected (n,min,max,sum)/value {exp}, observed {got}",
                "case": {"element": elem, "path": path, "dyn": True}})
    return viol, compared, sub


def _pack_invokes(elems):
    """Invokes of the elements as one executed program.  Named invokes get
    unique names e<k> (the enumerated names are judged by the static oracle;
    executed programs only keep the named / unnamed distinction)."""
    invokes = []
    owners = []
    for elem in elems:
        for inv in elem["invokes"]:
            new = dict(inv)
            if new.get("name") is not None:
                new["name"] = f"e{len(invokes)}"
            invokes.append(new)
            owners.append(elem)
    return invokes, owners


def _dynamic(elems_by_path, classes, single=False):
    """Executed oracle for the elements accepted (and statically clean) on a
    path.  Elements clean on both paths are packed into one program that is
    generated once per path (the PSy layer is compiled once when both paths
    produce the same PSy text); falls back to one program per element when a
    packed program is refused or does not build."""
    viol = []
    compared = 0
    sizes = _base()
    both = [e for e in elems_by_path["f2py"]
            if any(e is o for o in elems_by_path["psyir"])]
    queue = []
    if both:
        queue.append((PATHS, both))
    for path in PATHS:
        rest = [e for e in elems_by_path[path] if not any(e is o for o in both)]
        if rest:
            queue.append(((path,), rest))
    if single:
        queue = [(paths, [e]) for paths, grp in queue for e in grp]
    while queue:
        paths, grp = queue.pop(0)
        invs, own = _pack_invokes(grp)
        text = G.program_text(invs, observe=True)
        gens = {path: _generate(path, text) for path in paths}
        if any(gens[path][0] != "ok" for path in paths):
            if len(grp) > 1:
                queue = [(paths, [e]) for e in grp] + queue
                _count(classes, "dyn:pack-refused-rebuilt-singly")
                continue
            raise RuntimeError(f"element {grp[0]['key']} generated when judged "
                               f"but not for execution: {gens}")
        if len(grp) > 1:
            # the packed program is a multi-invoke program in its own right
            for path in paths:
                res = gens[path]
                for idx, kind, where, msg in P.judge_program(res[1], res[2], invs):
                    elem = own[idx] if idx is not None else own[0]
                    viol.append({"key": f"{elem['key']}@{path}:packed",
                                 "sig": _sig(path, idx, kind, where, invs) + ":packed",
                                 "msg": f"[{path}] in a program of {len(invs)} "
                                        f"invokes: {msg}",
                                 "case": {"element": {"key": elem["key"] + ":packed",
                                                      "invokes": invs},
                                          "path": path, "dyn": False}})
        built = {}
        failed = None
        results = []
        for path in paths:
            res = gens[path]
            reuse = None
            for other, (text_o, dir_o) in built.items():
                if text_o == res[2]:
                    reuse = dir_o
            got, extra, sub = _execute(invs, path, res, own, classes, sizes,
                                       psy_from=reuse)
            if got is None:
                failed = (path, extra)
                break
            built[path] = (res[2], sub)
            results.append((path, got, extra))
        if failed is not None:
            path, (status, log) = failed
            if len(grp) > 1:
                queue = [(paths, [e]) for e in grp] + queue
                _count(classes, "dyn:pack-build-failed-rebuilt-singly")
                continue
            elem = grp[0]
            viol.append({"key": f"{elem['key']}@{path}:build",
                         "sig": _dyn_sig(path, status),
                         "msg": f"[{path}] {_show(invs)}: generated code fails at "
                                f"stage {status}: {_first_error(log)}",
                         "case": {"element": elem, "path": path, "dyn": True}})
            # the other path of a single element is still worth running
            rest = tuple(q for q in paths if q != path and
                         q not in [r[0] for r in results])
            if rest:
                queue.insert(0, (rest, grp))
        for path, got, extra in results:
            _count(classes, f"dyn:{path}:programs-run")
            viol += got
            compared += extra
        for _text, sub in built.values():
            shutil.rmtree(sub, ignore_errors=True)
    return viol, compared


def _count(classes, name):
    classes[name] = classes.get(name, 0) + 1


def _first_error(log):
    for line in log.splitlines():
        if "Error" in line:
            return line.strip()[:300]
    return log.strip().splitlines()[-1][:300] if log.strip() else ""


def _strip_paths(text):
    import re
    return re.sub(r"/\S*/c24_alg\.f90", "c24_alg.f90", text)


def run_case(case):
    classes = {}
    examples = {}
    tim_start = os.times()
    viol = []
    positions = 0
    nontrivial = 0
    sample = None
    clean = {path: [] for path in PATHS}
    for elem in case["elements"]:
        got, results, npos = _judge_element(elem, classes, examples)
        viol += got
        positions += npos
        generated = [p for p in PATHS if results[p][0] == "ok"]
        if generated and G.is_nontrivial(elem):
            nontrivial += 1
        for path in generated:
            if not results[path][3]:
                clean[path].append(elem)
        if sample is None and generated:
            sample = {"key": elem["key"], "source": _show(elem["invokes"]),
                      "outcome": {p: results[p][0] if results[p][0] != "ok" else
                                  ("static-violation" if results[p][3] else "agree")
                                  for p in PATHS}}
    compared = 0
    tim0 = os.times()
    if case["dyn"]:
        single = case["cls"].startswith("naming")
        got, compared = _dynamic(clean, classes, single=single)
        viol += got
    tim1 = os.times()
    res = {"evals": len(case["elements"]), "nontrivial": nontrivial,
           "states": len(case["elements"]), "transitions": positions,
           "validated": compared, "classes": classes, "viol": viol}
    if sample:
        res["sample"] = sample
    if examples:
        res["extra"] = {"not_generated_examples": examples}
    if os.environ.get("C24_TIMING"):      # development aid only
        def cpu(tms):
            return tms.user + tms.system + tms.children_user + tms.children_system
        res.setdefault("extra", {})["cpu_static_s"] = cpu(tim0) - cpu(tim_start)
        res["extra"]["cpu_executed_s"] = cpu(tim1) - cpu(tim0)
    return res


def replay(case):
    elem = case["element"]
    path = case["path"]
    classes = {}
    invokes = elem["invokes"]
    text = G.program_text(invokes, observe=False)
    res = _generate(path, text)
    out = {"source": text, "path": path, "outcome": res[0], "viol": []}
    if res[0] != "ok":
        out["detail"] = list(res[1:])
        return out
    out["algorithm_calls"] = [c[2] for c in P.alg_calls(res[1])]
    out["psy_routines"] = [f"{r.name}({', '.join(r.dummies)})"
                           for r in P.psy_routines(res[2])]
    found, _ = _static(path, res, invokes)
    for sig, msg in found:
        out["viol"].append({"sig": sig, "msg": msg})
    if case.get("dyn"):
        got, compared = _dynamic({p: ([elem] if p == path else []) for p in PATHS},
                                 classes, single=True)
        out["compared_invokes"] = compared
        for vio in got:
            out["viol"].append({"sig": vio["sig"], "msg": vio["msg"]})
    return out
