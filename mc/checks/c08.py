"""C08 Loops reported parallelisable have no loop-carried dependence.

Every loop of an enumerated corpus is given to the real
DependencyTools.can_loop_be_parallelised (under a CPU-time watchdog).  When the
answer is True, the E1 interpreter executes the loop on every enumerated input
and records, per iteration of that loop, every location read and written; two
distinct iterations touching one location with at least one write is a
violation unless the location is a scalar whose first access is a write in
every iteration that touches it.
"""
import itertools
import signal

ID = "C08"
LEVEL = "model_checking"
EXHAUSTIVE = True
CASE_TIMEOUT = 3000
WATCHDOG_CPU_S = 60
RULE = ("loops: single loops (headers 1..n, n..1:-1, 1..n:2) over statements "
        "a(S)=B(T)+1 for all subscript pairs S,T in {i,i+1,i-1,2*i,2*i+1,i/2,(i+1)/2,"
        "mod(i,2),i*i,n-i,k,3,ix(i),d_i,d1_i}, B in {a,b}; structure-member arrays; "
        "scalar patterns (write-then-read, read-then-write, conditional write then "
        "read, write-only, conditional write-only, reduction, induction); statement "
        "pairs; 2-deep nests over q with subscript pairs incl. (i,j),(j,i),(i,i),"
        "(i,ix(i)) analysed at the outer and at the inner loop; inputs n=0..5 x index "
        "array contents; non-trivial = the analysis answered True (then every input is "
        "executed and all iteration pairs compared)")
ASSUMPTIONS = [
    "E1 records the actual per-iteration access sets (exact dynamic Bernstein "
    "conditions on the enumerated inputs)",
    "exemption (weaker than the text): a scalar whose first access is a write in every "
    "iteration that touches it",
    "a False verdict is never judged; no answer within 60 s of CPU time is reported "
    "as non-termination",
]

MODHEAD = """module c08_mod
  type :: dt
    real :: d(0:30)
    real :: w
  end type dt
contains
subroutine s(n, k, d_i, d1_i, t, u, a, b, q, ix, sd)
  integer, intent(in) :: n
  integer, intent(inout) :: k
  integer, intent(in) :: d_i
  integer, intent(in) :: d1_i
  real, intent(inout) :: t
  real, intent(inout) :: u
  real, intent(inout) :: a(0:30)
  real, intent(inout) :: b(0:30)
  real, intent(inout) :: q(0:12,0:12)
  integer, intent(in) :: ix(0:30)
  type(dt), intent(inout) :: sd
  integer :: i
  integer :: j
"""
MODFOOT = "end subroutine s\nend module c08_mod\n"

SUBS = ["i", "i + 1", "i - 1", "2 * i", "2 * i + 1", "i / 2", "(i + 1) / 2",
        "mod(i, 2)", "i * i", "n - i", "k", "3", "ix(i)", "d_i", "d1_i",
        "i + d_i", "i + d1_i"]
SUBS2 = ["(i, j)", "(j, i)", "(i, i)", "(i, ix(i))", "(i - 1, j)", "(i, j - 1)",
         "(i + 1, j - 1)", "(j, j)", "(i, 3)", "(i + j, j)"]
HEADS = {"up": "1, n", "dn": "n, 1, -1", "s2": "1, n, 2"}

SCALAR_BODIES = [
    ("w-r", "t = a(i)\nb(i) = t"),
    ("r-w", "b(i) = t\nt = a(i)"),
    ("cw-r", "if (a(i) > 2.0) then\n  t = a(i)\nend if\nb(i) = t"),
    ("w", "t = a(i)"),
    ("cw", "if (a(i) > 2.0) then\n  t = 1.0\nend if"),
    ("red", "t = t + a(i)"),
    ("red2", "t = a(i) + t\nb(i) = t"),
    ("ind", "k = i\na(k) = b(i)"),
    ("ind2", "k = k + 1\na(k) = b(i)"),
    ("w-cw-r", "t = 0.0\nif (a(i) > 2.0) then\n  t = a(i)\nend if\nb(i) = t"),
    ("cr-w", "if (a(i) > 2.0) then\n  b(i) = t\nend if\nt = a(i)"),
    ("u-t", "t = a(i)\nu = t + 1.0\nb(i) = u"),
    ("sw", "sd%w = a(i)\nb(i) = sd%w"),
    ("sw-r", "b(i) = sd%w\nsd%w = a(i)"),
    ("elt-w-r", "a(3) = b(i)\nb(i) = a(3) + 1.0"),
]


def indent(text, pre="  "):
    return "".join(pre + line + "\n" for line in text.split("\n"))


def loop(var, head, body):
    return f"do {var} = {HEADS[head]}\n{indent(body).rstrip()}\nend do"


def corpus(tier):
    """(key, source, index of the analysed loop in walk order)"""
    rich = tier == "thorough"
    out = []
    heads = ["up", "dn", "s2"]
    for head in heads:
        hsubs = SUBS if (rich or head == "up") else SUBS[:8]
        for rhs in ("a", "b"):
            for s_w, s_r in itertools.product(hsubs, hsubs):
                body = f"a({s_w}) = {rhs}({s_r}) + 1.0"
                out.append((f"A:{head}:a[{s_w}]={rhs}[{s_r}]", loop("i", head, body), 0))
        for s_w, s_r in itertools.product(hsubs[:10], hsubs[:10]):
            body = f"sd%d({s_w}) = sd%d({s_r}) + 1.0"
            out.append((f"S:{head}:d[{s_w}]=d[{s_r}]", loop("i", head, body), 0))
        for key, body in SCALAR_BODIES:
            out.append((f"C:{head}:{key}", loop("i", head, body), 0))
    # two array statements
    psubs = SUBS[:6] if not rich else SUBS[:10]
    for s1, s2 in itertools.product(psubs, psubs):
        body = f"a({s1}) = b(i) + 1.0\nb(i) = a({s2})"
        out.append((f"P:up:a[{s1}]=b;b=a[{s2}]", loop("i", "up", body), 0))
        body = f"b({s1}) = a(i) + 1.0\nu = b({s2})"
        out.append((f"P:up:b[{s1}]=a;u=b[{s2}]", loop("i", "up", body), 0))
    # an array READ in an earlier statement than its WRITE (and in an IF
    # condition guarding the write)
    for s1, s2 in itertools.product(psubs, psubs):
        body = f"u = a({s2})\na({s1}) = b(i) + 1.0"
        out.append((f"Q:up:u=a[{s2}];a[{s1}]=b", loop("i", "up", body), 0))
        body = f"if (a({s2}) > 2.0) then\n  a({s1}) = b(i)\nend if"
        out.append((f"Q:up:if(a[{s2}])a[{s1}]=b", loop("i", "up", body), 0))
        body = f"b(i) = a({s2})\na({s1}) = 2.0 * b(i)"
        out.append((f"Q:up:b=a[{s2}];a[{s1}]=2b", loop("i", "up", body), 0))
    # the same array WRITTEN by two different statements
    for s1, s2 in itertools.product(psubs, psubs):
        body = f"t = 0.5 * b(i)\na({s1}) = t\na({s2}) = -t"
        out.append((f"W:up:a[{s1}]=t;a[{s2}]=-t", loop("i", "up", body), 0))
    # 2-deep nests, analysed at the outer (0) and the inner (1) loop
    for s_w, s_r in itertools.product(SUBS2, SUBS2):
        body = f"q{s_w} = q{s_r} + 1.0"
        for order, (ov, iv) in (("ji", ("j", "i")), ("ij", ("i", "j"))):
            src = loop(ov, "up", loop(iv, "up", body))
            for which in (0, 1):
                out.append((f"N:{order}:q{s_w}=q{s_r}@{which}", src, which))
    for key, body in SCALAR_BODIES[:8]:
        src = loop("j", "up", loop("i", "up", body))
        for which in (0, 1):
            out.append((f"NC:{key}@{which}", src, which))
    if rich:
        for (k1, b1), (k2, b2) in itertools.product(SCALAR_BODIES, SCALAR_BODIES):
            if k1 != k2:
                out.append((f"CC:{k1};{k2}", loop("i", "up", b1 + "\n" + b2), 0))
    return out


_CORPUS = {}


def _corpus(tier):
    if tier not in _CORPUS:
        import os
        only = os.environ.get("C08_ONLY")   # development aid: key prefix filter
        _CORPUS[tier] = [c for c in corpus(tier)
                         if not only or c[0].startswith(tuple(only.split(",")))]
    return _CORPUS[tier]


BLOCK = 8


def bounds(tier):
    return {"loops": len(_corpus(tier)), "inputs": "n=0..5 x k in {1,3} x 4 index-array "
            "contents (programs using ix) ", "watchdog_cpu_s": WATCHDOG_CPU_S}


def cases(tier):
    total = len(_corpus(tier))
    for start in range(0, total, BLOCK):
        yield {"key": f"blk{start:06d}", "start": start,
               "stop": min(total, start + BLOCK)}


_TIER = "quick"


def init_worker(tier):
    global _TIER
    _TIER = tier
    _corpus(tier)


class _Watchdog(Exception):
    pass


def _on_vtalrm(_sig, _frm):
    raise _Watchdog()


def analyse(loop_node):
    """Runs the real analysis under a CPU-time watchdog.
    Returns True / False / 'timeout' / ('raised', type name)."""
    from psyclone.psyir.tools import DependencyTools
    old = signal.signal(signal.SIGVTALRM, _on_vtalrm)
    signal.setitimer(signal.ITIMER_VIRTUAL, WATCHDOG_CPU_S)
    try:
        res = DependencyTools().can_loop_be_parallelised(loop_node)
        signal.setitimer(signal.ITIMER_VIRTUAL, 0)
        return bool(res)
    except _Watchdog:
        return "timeout"
    except Exception as err:  # pylint: disable=broad-except
        signal.setitimer(signal.ITIMER_VIRTUAL, 0)
        return ("raised", type(err).__name__)
    finally:
        signal.setitimer(signal.ITIMER_VIRTUAL, 0)
        signal.signal(signal.SIGVTALRM, old)


IX_PATTERNS = {
    "id": lambda p: p,
    "const": lambda p: 1,
    "alt": lambda p: 1 + p % 2,
    "rev": lambda p: 6 - p if 1 <= p <= 5 else p,
}


def make_inputs(body):
    from fractions import Fraction as F
    from mc.fortsem import interp as I
    import re as _re
    uses_ix = "ix(" in body
    uses_k = _re.search(r"\bk\b", body) is not None
    out = []
    for nval in range(0, 6):
        for kval in ((1, 3) if uses_k else (1,)):
            for pname, pfun in (IX_PATTERNS.items() if uses_ix else [("id", IX_PATTERNS["id"])]):
                def make(nval=nval, kval=kval, pfun=pfun):
                    dvals = I.make_array("sd%d", "real", [(0, 30)],
                                         [F(4 * p + 1, 4) for p in range(31)])
                    for cell in dvals.cells:
                        cell.loc = ("sd", "%d", cell.loc[1])
                    wcell = I.make_scalar("sd%w", "real", F(9, 2))
                    wcell.loc = ("sd", "%w", ())
                    return [
                        I.make_scalar("n", "int", nval),
                        I.make_scalar("k", "int", kval),
                        I.make_scalar("d_i", "int", 1),
                        I.make_scalar("d1_i", "int", 2),
                        I.make_scalar("t", "real", F(7, 2)),
                        I.make_scalar("u", "real", F(-3, 2)),
                        I.make_array("a", "real", [(0, 30)],
                                     [F(2 * p + 1, 2) for p in range(31)]),
                        I.make_array("b", "real", [(0, 30)],
                                     [F(100 + 2 * p) for p in range(31)]),
                        I.make_array("q", "real", [(0, 12), (0, 12)],
                                     [F(8 * (20 * c + r) + 1, 8)
                                      for c in range(13) for r in range(13)]),
                        I.make_array("ix", "int", [(0, 30)],
                                     [pfun(p) for p in range(31)]),
                        I.StructVal({"d": dvals, "w": wcell}, "dt"),
                    ]
                out.append((f"n={nval},k={kval},ix={pname}", make))
    return out


def conflicts(tree, loop_node, inputs):
    """Executes the routine on every input, recording accesses per iteration
    of loop_node.  Returns (admissible inputs, first conflict or None)."""
    from mc.fortsem import equiv
    admissible = 0
    for ikey, make in inputs:
        per_loc = {}

        def tracer(kind, cell, _node, interp, per_loc=per_loc):
            itv = None
            for entry in interp.loop_stack:
                if entry[0] is loop_node:
                    itv = entry[1]
                    inst = entry[2]
                    break
            if itv is None:
                return
            # iterations are compared within ONE execution of the loop
            rec = per_loc.setdefault((inst,) + cell.loc, {})
            one = rec.get(itv)
            if one is None:
                rec[itv] = [kind, kind == "W"]
            elif kind == "W":
                one[1] = True
        res = equiv.run(tree, "s", make(), tracer=tracer, horizon=50000)
        if res[0] == "unsupported":
            raise RuntimeError(f"E1 cannot run: {res[1]}")
        if res[0] != "ok":
            continue
        admissible += 1
        for loc in sorted(per_loc, key=str):
            rec = per_loc[loc]
            if len(rec) < 2 or not any(w for _f, w in rec.values()):
                continue
            is_scalar = loc[-1] == ()
            if is_scalar and all(first == "W" for first, _w in rec.values()):
                continue
            its = sorted(rec)
            writer = [i for i in its if rec[i][1]][0]
            other = [i for i in its if i != writer][0]
            loc = loc[1:]
            return admissible, (ikey, loc, writer, other, is_scalar,
                                rec[other][0], rec[writer][0])
    return admissible, None


def check_loop(key, body, which):
    from psyclone.psyir.frontend.fortran import FortranReader
    from psyclone.psyir import nodes as N
    from mc.fortsem import equiv
    src = MODHEAD + indent(body) + MODFOOT
    tree = FortranReader().psyir_from_source(src)
    loop_node = tree.walk(N.Loop)[which]
    verdict = analyse(loop_node)
    res = {"classes": {}, "viol": [], "nontrivial": 0}
    payload = {"key": key, "body": body, "which": which}
    if verdict == "timeout":
        res["classes"]["no-answer"] = 1
        res["viol"].append({
            "key": key, "sig": f"nontermination:{key}",
            "msg": f"can_loop_be_parallelised did not answer within "
                   f"{WATCHDOG_CPU_S}s of CPU time for loop {which} of\n{body}",
            "case": payload})
        return res
    if isinstance(verdict, tuple):
        res["classes"][f"raised-{verdict[1]}"] = 1
        return res
    if verdict is False:
        res["classes"]["not-parallelisable"] = 1
        return res
    res["nontrivial"] = 1
    admissible, conf = conflicts(tree, loop_node, make_inputs(body))
    if conf is None:
        res["classes"]["parallelisable-ok" if admissible else
                       "parallelisable-no-admissible-input"] = 1
        return res
    ikey, loc, it1, it2, is_scalar, first_other, first_writer = conf
    res["classes"]["parallelisable-WRONG"] = 1
    kind = "scalar" if is_scalar else "array"
    res["viol"].append({
        "key": key, "sig": f"carried-dependence:{kind}:{key}",
        "group": kind,
        "msg": f"can_loop_be_parallelised is True for loop {which} "
               f"({loop_node.variable.name}) of\n{body}\nbut on input {ikey} "
               f"iterations {it1} and {it2} both touch {equiv.show_loc(loc)} "
               f"(iteration {it1} writes it; first access in iteration {it2} is "
               f"{'a read' if first_other == 'R' else 'a write'})",
        "case": payload})
    return res


def run_case(case):
    progs = _corpus(_TIER)
    tot = {"evals": 0, "nontrivial": 0, "states": 0, "transitions": 0,
           "validated": 0, "classes": {}, "viol": []}
    for key, body, which in progs[case["start"]:case["stop"]]:
        res = check_loop(key, body, which)
        tot["evals"] += 1
        tot["states"] += 1
        tot["transitions"] += 1
        tot["validated"] += 1
        tot["nontrivial"] += res["nontrivial"]
        for cls, num in res["classes"].items():
            tot["classes"][cls] = tot["classes"].get(cls, 0) + num
        tot["viol"] += res["viol"]
    tot["sample"] = {"loop": progs[case["start"]][0],
                     "body": progs[case["start"]][1]}
    return tot


def replay(case):
    return check_loop(case["key"], case["body"], case["which"])
