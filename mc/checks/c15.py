"""C15 Copies of PSyIR subtrees are independent and equal.

For every node ``t`` of 12 seed programs the real ``t.copy()`` is taken and

* at copy time: ``c == t``; an independent reflective shape dump of both is
  identical; the copy is a well-formed detached tree; no tree node and no
  symbol table object is shared; every use of a symbol (Reference, Loop
  variable, return symbol, literal/declaration precision, array bound, initial
  value, derived-type component, import container, generic-interface routine,
  argument list, tags ...) that in the original resolves to a symbol declared
  inside the copied scopes is, in the copy, the copy's own corresponding
  symbol object; the written code of both is identical;
* then every sequence of up to D edits (public API calls on objects inside the
  original subtree or inside the copy) is executed on freshly built objects;
  after the last edit the FortranWriter text (DebugWriter text for detached
  copies that cannot be lowered) of the side that was NOT edited must be
  byte-identical to what it was before that edit.
"""
import zlib

from mc import c15_seeds, c15_graph, c15_edits

ID = "C15"
LEVEL = "model_checking"
EXHAUSTIVE = True
CASE_TIMEOUT = 900
RULE = ("for every node t of every seed program: c = t.copy() is judged at copy "
        "time (1 evaluation), then every edit sequence over the enumerated edit "
        "descriptors (both sides; targets = every symbol / scope / literal / "
        "statement / loop / call / reference inside the subtree) up to the depth "
        "bounds is executed on freshly built objects and judged after its last "
        "edit; sequences are distinct by (seed, subtree, descriptor list); a "
        "sequence is non-trivial when every edit in it was accepted and the last "
        "one changed the written code (DebugWriter text) of the edited side; "
        "sequences are not extended past a refused or inapplicable edit")
ASSUMPTIONS = [
    "edits are public-API calls on objects inside the copied subtree or inside "
    "the copy only; symbols declared in enclosing, not copied scopes are "
    "legitimately shared and are never edited",
    "written code: at copy time both FortranWriter()(tree) and "
    "DebugWriter()(tree) of original and copy are compared (statement-level "
    "subtrees and above); after an edit the unedited side is judged on its "
    "FortranWriter text when the FortranWriter accepted it right after "
    "copying, else (detached directive copies) on its DebugWriter text; a bare "
    "Schedule is written as the concatenation of its statements; a writer "
    "exception counts as the text 'ERR:<class>'",
    "a text change of the unedited side that is explained only by a change of "
    "a symbol declared outside the copied scopes is not judged",
    "each sequence is replayed from a fresh frontend run on a cached fparser2 "
    "parse tree (checked equal to a fresh FortranReader run at start-up)",
]

# core_depth: longest sequence made of CORE_OPS only; full_depth: longest
# sequence over all operators; core_cap: the longest (core_depth) sequences are
# only enumerated for subtrees with at most this many core edit descriptors
# (both sides together); a FileContainer whose only child is a Container or
# Routine differs from that child by an empty file-level symbol table only and
# is explored to full_depth (the child gets the full treatment).
TIERS = {
    "quick": {"core_depth": 2, "full_depth": 1, "core_cap": 10 ** 6},
    "thorough": {"core_depth": 3, "full_depth": 2, "core_cap": 80},
}
TARGET_ITEM = 1500      # histories per work item (approx.)
MAX_VIOL_PER_SIG = 2    # per work item; the rest is only counted

_TIER = "quick"
_WRITERS = {}


def bounds(tier):
    cfg = TIERS[tier]
    return {"seeds": list(c15_seeds.ORDER),
            "subtrees": "every node of every seed",
            "core_ops": list(c15_edits.CORE_OPS),
            "ext_ops": list(c15_edits.EXT_OPS),
            "max_edits_core_ops_only": cfg["core_depth"],
            "max_edits_all_ops": cfg["full_depth"],
            "core_only_depth_applies_to_subtrees_with_core_edits_le":
                cfg["core_cap"],
            "single_child_file_container_depth": cfg["full_depth"],
            "sides": ["original subtree", "copy"]}


# ---------------------------------------------------------------------------
# building, writing
# ---------------------------------------------------------------------------
def _writers():
    if not _WRITERS:
        from psyclone.psyir.backend.fortran import FortranWriter
        from psyclone.psyir.backend.debug_writer import DebugWriter
        _WRITERS["F"] = FortranWriter
        _WRITERS["D"] = DebugWriter
    return _WRITERS


def write(node, channel):
    """Written code of a subtree, or 'ERR:<Exception>' when the writer
    refuses.  A fresh writer object is used every time."""
    from psyclone.psyir.nodes import Schedule
    wcls = _writers()[channel]
    try:
        if type(node) is Schedule:
            return "".join(wcls()(child) for child in node.children)
        return wcls()(node)
    except Exception as err:  # pylint: disable=broad-except
        # whatever the writer raises on this tree is its outcome for it
        return f"ERR:{type(err).__name__}"


def make_pair(seed, sub):
    from psyclone.psyir.nodes import Node
    root = c15_seeds.build(seed)
    tnode = root.walk(Node)[sub]
    cnode = tnode.copy()
    return c15_edits.Pair(root, tnode, cnode)


# ---------------------------------------------------------------------------
# copy-time oracle
# ---------------------------------------------------------------------------
def _first_diff(one, two):
    """'Class.attr' context of the first differing line of two shape dumps."""
    idx = 0
    while idx < min(len(one), len(two)) and one[idx] == two[idx]:
        idx += 1
    attr, cls, depth = "?", "?", 0
    for line in reversed(one[:idx + 1]):
        if line.startswith(".") and attr == "?" and depth == 0:
            attr = line
        if line.startswith(")") or line in ("again)",):
            depth += 1
        elif line.startswith("("):
            if depth == 0:
                cls = line[1:]
                break
            depth -= 1
    got = two[idx] if idx < len(two) else "<end>"
    exp = one[idx] if idx < len(one) else "<end>"
    return f"{cls}{attr}", f"line {idx}: original '{exp}' copy '{got}'"


def _neq_detail(tnode, cnode):
    """Deepest node pair that compares unequal although all child pairs are
    equal; returns a short class-based description."""
    from psyclone.psyir.nodes import ScopingNode, Routine
    if type(tnode) is type(cnode) and \
            len(tnode.children) == len(cnode.children):
        for tch, cch in zip(tnode.children, cnode.children):
            if not cch == tch:
                return _neq_detail(tch, cch)
    det = type(tnode).__name__
    if isinstance(tnode, Routine) and tnode.return_symbol is not None:
        det += "(function)"
    if isinstance(tnode, ScopingNode) and isinstance(cnode, ScopingNode) and \
            not tnode.symbol_table == cnode.symbol_table:
        det += ":symbol_table"
    return det


def judge_copy(pair, seed, sub):
    """All copy-time violations of one (original subtree, copy) pair as
    (sig, msg) tuples, plus a dict of facts."""
    # pylint: disable=too-many-locals,too-many-branches
    from psyclone.psyir.nodes import Node, ScopingNode
    tnode, cnode = pair.tree["o"], pair.tree["c"]
    name = f"{seed} node {sub} ({type(tnode).__name__})"
    out = []
    facts = {}
    if not cnode == tnode:
        det = _neq_detail(tnode, cnode)
        out.append((f"copy-not-equal:{det}",
                    f"copy of {name}: `copy == original` is False (deepest "
                    f"unequal pair with equal children: {det})"))
    wto, wco = c15_graph.Walk([tnode]), c15_graph.Walk([cnode])
    shape_ok = wto.shape == wco.shape
    facts["uses"] = len(wto.uses)
    if not shape_ok:
        ctx, det = _first_diff(wto.shape, wco.shape)
        out.append((f"copy-structure-differs:{ctx}",
                    f"copy of {name}: reflective dump of the copy differs from "
                    f"the original at {ctx} ({det})"))
    # well-formed detached tree
    if cnode.parent is not None:
        out.append(("copy-malformed:has-parent",
                    f"copy of {name} has a parent"))
    for node in cnode.walk(Node):
        for child in node.children:
            if child.parent is not node:
                out.append((f"copy-malformed:parent-link:{type(node).__name__}",
                            f"copy of {name}: a child of a "
                            f"{type(node).__name__} does not have it as parent"))
                break
    for sco in cnode.walk(ScopingNode):
        if sco.symbol_table.node is not sco:
            out.append(("copy-malformed:table.node",
                        f"copy of {name}: symbol table of a "
                        f"{type(sco).__name__} is attached to another node"))
    # no shared tree node / table
    orig_nodes = {id(n) for n in pair.root.walk(Node)}
    for node in cnode.walk(Node):
        if id(node) in orig_nodes:
            out.append((f"shared-node:{type(node).__name__}",
                        f"copy of {name} contains a node object "
                        f"({type(node).__name__}) of the original tree"))
            break
    orig_tabs = {id(s.symbol_table) for s in pair.root.walk(ScopingNode)}
    for sco in cnode.walk(ScopingNode):
        if id(sco.symbol_table) in orig_tabs:
            out.append(("shared-table",
                        f"copy of {name}: a {type(sco).__name__} of the copy "
                        f"uses a symbol table object of the original"))
            break
    # no symbol object is an entry of a table of the copy and of the original
    root_syms = {id(sym) for sco in pair.root.walk(ScopingNode)
                 for sym in sco.symbol_table.symbols}
    for sco in cnode.walk(ScopingNode):
        for sym in sco.symbol_table.symbols:
            if id(sym) in root_syms:
                out.append((f"shared-symbol:{type(sym).__name__}",
                            f"copy of {name}: the {type(sym).__name__} "
                            f"'{sym.name}' in a symbol table of the copy is "
                            f"the same object as in the original"))
                break
    # symbol ownership
    inside = 0
    if shape_ok:
        seen = set()
        for (route, osym, _h1), (_r2, csym, _h2) in zip(wto.uses, wco.uses):
            if id(osym) not in wto.own:
                continue
            inside += 1
            if wco.own.get(id(csym)) == wto.own[id(osym)]:
                continue
            cat = c15_graph.category(route)
            kind = ("foreign-symbol" if csym is osym else "wrong-symbol")
            if (kind, cat) in seen:
                continue
            seen.add((kind, cat))
            what = ("the ORIGINAL's symbol object" if csym is osym else
                    "a symbol object that is not the copy's own entry")
            out.append((f"{kind}:{cat}",
                        f"copy of {name}: '{osym.name}' is declared inside the "
                        f"copied scopes, but in the copy the use reached via "
                        f"{'>'.join(route)} refers to {what}"))
    facts["uses_inside"] = inside
    # written code (an expression is written differently without its parent,
    # e.g. a function Call becomes a call statement: statements and above only)
    from psyclone.psyir.nodes import DataNode, Schedule
    in_expr = isinstance(tnode, DataNode) and \
        not isinstance(tnode.parent, Schedule)
    for chan in ("F", "D"):
        tto, tco = write(tnode, chan), write(cnode, chan)
        facts[chan] = (not tto.startswith("ERR:"), not tco.startswith("ERR:"))
        if all(facts[chan]) and tto != tco and not in_expr:
            out.append((f"copy-text-differs:{chan}",
                        f"copy of {name}: written code of the copy differs "
                        f"from the original's:\n{_diff(tto, tco)}"))
    return out, facts


def _diff(one, two, limit=12):
    import difflib
    lines = [ln for ln in difflib.unified_diff(one.split("\n"), two.split("\n"),
                                               "before", "after", lineterm="",
                                               n=0)
             if not ln.startswith(("---", "+++", "@@"))]
    return "\n".join(lines[:limit])


# ---------------------------------------------------------------------------
# edit histories
# ---------------------------------------------------------------------------
def _outer_state(pair, side):
    """Names/classes of the symbols used by one side that are declared outside
    both copied scopes (legitimately shared)."""
    walk = c15_graph.Walk([pair.tree[side]])
    owno = {id(s) for _i, s in pair.syms["o"]}
    ownc = {id(s) for _i, s in pair.syms["c"]}
    res = []
    for _route, sym, _hold in walk.uses:
        if id(sym) in walk.own or id(sym) in owno or id(sym) in ownc:
            continue
        res.append((sym.name, type(sym).__name__,
                    str(getattr(sym, "datatype", ""))))
    return res


def _explain(pair, desc, bside):
    """Categories of the ways in which the unedited side reaches the objects
    the edit acted on."""
    tids = {id(o): o for o in c15_edits.touched(pair, desc)}
    walk = c15_graph.Walk([pair.tree[bside]])
    cats = set()
    for route, sym, _hold in walk.uses:
        if id(sym) in tids:
            cats.add(c15_graph.category(route))
    for kind in ("node", "enode", "table", "iface", "type"):
        for obj in walk.objs[kind]:
            if id(obj) in tids:
                cats.add(f"shared-{kind}:{type(obj).__name__}")
    for sym in walk.objs["symbol"]:
        if id(sym) in tids:
            cats.add("shared-own-symbol")
    return sorted(cats)


class Texts:
    """Written code of both sides in one state, computed on demand (the pair
    must not be edited any more once a Texts object is handed out)."""

    def __init__(self, pair, fok):
        self.pair, self.fok, self.memo = pair, fok, {}

    def get(self, side, chan):
        if (side, chan) not in self.memo:
            self.memo[(side, chan)] = write(self.pair.tree[side], chan)
        return self.memo[(side, chan)]

    def judged(self, side):
        """The channel on which a side is judged and its text."""
        chan = "F" if self.fok[side] else "D"
        return chan, self.get(side, chan)


def f_writable(seed, sub):
    """Per side: does the FortranWriter accept the tree right after copying
    (a detached copy of e.g. an OpenMP directive cannot be lowered)."""
    pair = make_pair(seed, sub)
    return {side: not write(pair.tree[side], "F").startswith("ERR:")
            for side in ("o", "c")}


def run_history(seed, sub, hist, before=None, diagnose=True, fok=None):
    """Executes one history on fresh objects and judges its LAST edit.

    before: optional Texts of the state before the last edit (from the run of
    the prefix history); when absent they are computed here.  Returns a dict
    with: outcome, suspect, viol [(sig, msg)], after (Texts), changed (bool:
    the DebugWriter text of the edited side changed).
    """
    if fok is None:
        fok = f_writable(seed, sub)
    pair = make_pair(seed, sub)
    for desc in hist[:-1]:
        res = c15_edits.apply_edit(pair, desc)
        if res != "applied":
            raise RuntimeError(f"prefix edit {desc} of {seed}/{sub} gave {res}")
    if not hist:
        return {"outcome": "copy", "viol": [], "changed": False,
                "suspect": False, "after": Texts(pair, fok)}
    last = hist[-1]
    aside, bside = last["side"], pair.other(last["side"])
    if before is None:
        before = Texts(pair, fok)
        before.judged(bside)
        before.get(aside, "D")
    outer = _outer_state(pair, bside) if diagnose else None
    outcome = c15_edits.apply_edit(pair, last)
    after = Texts(pair, fok)
    chan, btext = after.judged(bside)
    suspect = before.judged(bside)[1] != btext
    result = {"outcome": outcome, "viol": [], "after": after,
              "changed": before.get(aside, "D") != after.get(aside, "D"),
              "suspect": suspect}
    if not suspect or not diagnose:
        return result
    cats = _explain(pair, last, bside)
    if not cats:
        if outer != _outer_state(pair, bside):
            result["outcome"] = outcome + "+outer-scope-effect"
            result["suspect"] = False
            return result
        cats = ["unexplained"]
    names = {"o": "the original", "c": "the copy"}
    seq = " ; ".join(f"{d['side']}.{d['op']}({d['what']})" for d in hist)
    for cat in cats:
        sig = f"text-changed:{last['op']}:{aside}>{bside}:{cat}"
        msg = (f"seed '{seed}', copy of node {sub} "
               f"({type(pair.tree['o']).__name__}); edits: {seq}. The last edit "
               f"({outcome}) was made on {names[aside]} but the "
               f"{'FortranWriter' if chan == 'F' else 'DebugWriter'} text of "
               f"{names[bside]} changed (expected: byte-identical); "
               f"{names[bside]} reaches the edited object via {cat}:\n"
               f"{_diff(before.judged(bside)[1], btext)}")
        result["viol"].append((sig, msg))
    return result


# ---------------------------------------------------------------------------
# enumeration
# ---------------------------------------------------------------------------
def _allowed_ops(cfg, hist):
    """Operator names that may extend a history (None: may not be extended)."""
    nxt = len(hist) + 1
    if nxt <= cfg["full_depth"]:
        return c15_edits.CORE_OPS + c15_edits.EXT_OPS
    if nxt <= cfg["core_depth"] and \
            all(d["op"] in c15_edits.CORE_OPS for d in hist):
        return c15_edits.CORE_OPS
    return None


def _count_below(cfg, nfull, ncore, first_is_core):
    """Number of histories that start with one given edit if nothing is
    refused (used to size the work items only)."""
    total, anyops, coreonly = 1, 1, (1 if first_is_core else 0)
    for depth in range(2, max(cfg["core_depth"], cfg["full_depth"]) + 1):
        if depth <= cfg["full_depth"]:
            anyops *= nfull
            coreonly *= ncore
            total += anyops
        elif depth <= cfg["core_depth"]:
            coreonly *= ncore
            anyops = 0
            total += coreonly
    return total


def subtree_cfg(tier, pair, ncore):
    """Depth bounds that apply to one subtree."""
    from psyclone.psyir.nodes import FileContainer
    cfg = dict(TIERS[tier])
    top = pair.tree["o"]
    if (isinstance(top, FileContainer) and len(top.children) == 1) or \
            ncore > cfg["core_cap"]:
        cfg["core_depth"] = cfg["full_depth"]
    return cfg


def init_worker(tier):
    global _TIER
    _TIER = tier
    _writers()
    c15_edits.refusals()


def prepare(tier):
    init_worker(tier)
    c15_seeds.selfcheck()


def cases(tier):
    from psyclone.psyir.nodes import Node
    allops = c15_edits.CORE_OPS + c15_edits.EXT_OPS
    for seed in c15_seeds.ORDER:
        root = c15_seeds.build(seed)
        nsub = len(root.walk(Node))
        yield {"key": f"{seed}/copy", "mode": "copy", "seed": seed,
               "nsub": nsub}
        for sub in range(nsub):
            pair = make_pair(seed, sub)
            edits = c15_edits.enumerate_edits(pair, allops)
            if not edits:
                continue
            ncore = sum(1 for d in edits if d["op"] in c15_edits.CORE_OPS)
            cfg = subtree_cfg(tier, pair, ncore)
            start = 0
            while start < len(edits):
                stop, size = start, 0
                while stop < len(edits) and (size == 0 or size < TARGET_ITEM):
                    size += _count_below(
                        cfg, len(edits), ncore,
                        edits[stop]["op"] in c15_edits.CORE_OPS)
                    stop += 1
                yield {"key": f"{seed}/{sub}/{start}-{stop}", "mode": "hist",
                       "seed": seed, "sub": sub, "start": start, "stop": stop,
                       "nedits": len(edits)}
                start = stop


def _hkey(seed, sub, hist):
    return f"{seed}/{sub}:" + ",".join(c15_edits.edit_key(d) for d in hist)


def _run_copy_item(case):
    viol, classes, evals, inside = [], {}, 0, 0
    sample = None
    for sub in range(case["nsub"]):
        pair = make_pair(case["seed"], sub)
        found, facts = judge_copy(pair, case["seed"], sub)
        evals += 1
        inside += 1 if facts.get("uses_inside") else 0
        cls = "copy:" + type(pair.tree["o"]).__name__
        classes[cls] = classes.get(cls, 0) + 1
        for chan in ("F", "D"):
            if not all(facts[chan]):
                key = f"copy-unwritable({chan})"
                classes[key] = classes.get(key, 0) + 1
        for sig, msg in found:
            viol.append({"key": f"{case['seed']}/{sub}:copy#{sig}", "sig": sig,
                         "msg": msg,
                         "case": {"mode": "copy", "seed": case["seed"],
                                  "sub": sub}})
        if sample is None and facts.get("uses_inside"):
            sample = {"seed": case["seed"], "subtree": sub,
                      "class": type(pair.tree["o"]).__name__,
                      "symbol_uses": facts["uses"],
                      "uses_of_symbols_declared_inside": facts["uses_inside"],
                      "history": []}
    res = {"evals": evals, "nontrivial": inside, "states": evals,
           "transitions": 0, "validated": evals, "classes": classes,
           "viol": viol}
    if sample:
        res["sample"] = sample
    return res


def run_case(case):
    # pylint: disable=too-many-locals
    if case["mode"] == "copy":
        return _run_copy_item(case)
    seed, sub = case["seed"], case["sub"]
    allops = c15_edits.CORE_OPS + c15_edits.EXT_OPS
    pair0 = make_pair(seed, sub)
    edits = c15_edits.enumerate_edits(pair0, allops)
    if len(edits) != case["nedits"]:
        raise RuntimeError("edit enumeration is not deterministic")
    cfg = subtree_cfg(_TIER, pair0, sum(
        1 for d in edits if d["op"] in c15_edits.CORE_OPS))
    fok = f_writable(seed, sub)
    base = run_history(seed, sub, [], fok=fok)["after"]
    stats = {"evals": 0, "nontrivial": 0, "classes": {}, "nviol": 0,
             "persig": {}, "fps": set(), "sample": None}

    def visit(hist, before):
        res = run_history(seed, sub, hist, before=before, diagnose=False,
                          fok=fok)
        if res["suspect"]:
            # the verdict always comes from the self-contained procedure
            res = run_history(seed, sub, hist)
            if not res["suspect"] and \
                    "outer-scope-effect" not in res["outcome"]:
                raise RuntimeError(f"history {_hkey(seed, sub, hist)}: cached "
                                   f"and fresh 'before' texts disagree")
        stats["evals"] += 1
        cls = res["outcome"] + ":" + hist[-1]["op"]
        stats["classes"][cls] = stats["classes"].get(cls, 0) + 1
        if res["outcome"].startswith("applied") and res["changed"]:
            stats["nontrivial"] += 1
        stats["fps"].add(zlib.crc32(repr(
            sorted(res["after"].memo.items())).encode()))
        for sig, msg in res["viol"]:
            stats["nviol"] += 1
            lst = stats["persig"].setdefault(sig, [])
            lst.append((len(hist), _hkey(seed, sub, hist), {
                "key": _hkey(seed, sub, hist) + "#" + sig.split(":", 2)[2],
                "sig": sig, "msg": msg,
                "case": {"mode": "hist", "seed": seed, "sub": sub,
                         "hist": [dict(d) for d in hist]}}))
            lst.sort(key=lambda item: item[:2])
            del lst[MAX_VIOL_PER_SIG:]
        if stats["sample"] is None and len(hist) == max(cfg["core_depth"], cfg["full_depth"]) and \
                res["outcome"] == "applied" and res["changed"]:
            stats["sample"] = {"seed": seed, "subtree": sub,
                               "class": type(pair0.tree["o"]).__name__,
                               "history": [f"{d['side']}.{d['op']}({d['what']})"
                                           for d in hist],
                               "outcome": res["outcome"]}
        if not res["outcome"].startswith("applied"):
            return
        ops = _allowed_ops(cfg, hist)
        if ops is None:
            return
        for nxt in edits:
            if nxt["op"] in ops:
                visit(hist + [nxt], res["after"])

    for first in edits[case["start"]:case["stop"]]:
        visit([first], base)
    viol = [item[2] for sig in sorted(stats["persig"])
            for item in stats["persig"][sig]]
    out = {"evals": stats["evals"], "nontrivial": stats["nontrivial"],
           "states": len(stats["fps"]), "transitions": stats["evals"],
           "validated": stats["evals"], "classes": stats["classes"],
           "viol": viol,
           "extra": {"violations_not_listed_individually":
                     stats["nviol"] - len(viol)}}
    if stats["sample"]:
        out["sample"] = stats["sample"]
    return out


def replay(case):
    init_worker("quick")
    if case.get("mode") == "copy":
        pair = make_pair(case["seed"], case["sub"])
        found, facts = judge_copy(pair, case["seed"], case["sub"])
        return {"facts": {k: v for k, v in facts.items()},
                "viol": [{"sig": s, "msg": m} for s, m in found]}
    res = run_history(case["seed"], case["sub"], case["hist"])
    return {"outcome": res["outcome"],
            "viol": [{"sig": s, "msg": m} for s, m in res["viol"]]}
