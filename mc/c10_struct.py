"""C10 helper: an independent, text-level reader of the directive structure of
Fortran source emitted by PSyclone's FortranWriter, and the structural rules
that the property text states explicitly.

It knows nothing about PSyIR: it sees lines.  It builds a block tree from
``do``/``enddo``, ``if ... then``/``end if`` and ``!$omp``/``!$acc`` sentinel
lines and then checks

  R1 outside-parallel : ``!$omp do`` lexically inside an OpenMP parallel region
                        (parallel / parallel do / teams distribute parallel do);
                        ``!$omp loop`` inside one of those or ``!$omp target``
                        (OpenMP 5.0 2.9.5: an orphaned LOOP needs BIND);
                        ``!$acc loop`` inside ``!$acc parallel|kernels`` unless
                        the routine has ``!$acc routine``.
  R2 nested-parallel  : no OpenMP parallel construct inside another one; no
                        OpenACC compute construct inside another one.
  R3 collapse         : ``collapse(n)`` is followed by n perfectly nested DOs
                        (nothing but the next DO in each of the n-1 outer bodies).
  R4 matching         : every begin has its end at the same block level (the
                        end directive of an OpenMP loop-associated construct is
                        optional, as in OpenMP), every loop directive is
                        attached to a DO.

  R5 serial nesting   : no ``!$omp single``/``master`` closely nested (no parallel
                        construct in between) inside another single/master.

Directives the property text and OpenMP both allow are NOT flagged: orphaned
taskloop/single/master, target anywhere, parallel inside target and so on are left
to the compiler oracle.
"""
import re


class StructParseError(Exception):
    """The text is not of the shape FortranWriter is known to produce: the
    reader must be extended (harness error, never a verdict)."""


OMP_PARALLEL = ("omp parallel", "omp parallel do",
                "omp teams distribute parallel do")
OMP_LOOPDIRS = ("omp do", "omp parallel do",
                "omp teams distribute parallel do", "omp loop", "omp taskloop")
ACC_COMPUTE = ("acc parallel", "acc kernels")
OMP_SERIAL = ("omp single", "omp master")

# longest first
_OMP_BLOCK = ["teams distribute parallel do", "parallel do", "parallel",
              "taskloop", "do", "loop", "single", "master", "target"]
_OMP_ALONE = ["taskwait", "declare target", "barrier"]
_ACC_BLOCK = ["parallel", "kernels", "data"]
_ACC_ALONE = ["enter data", "routine", "update", "wait"]


class Blk:
    """One node of the block tree."""
    # pylint: disable=too-few-public-methods
    def __init__(self, kind, name, line, text, parent):
        self.kind = kind      # root | do | if | dir | accloop | alone | stmt
        self.name = name      # e.g. "omp parallel do", "do", "stmt"
        self.line = line      # 1-based line in the analysed text
        self.text = text
        self.parent = parent
        self.children = []
        self.collapse = None
        if parent is not None:
            parent.children.append(self)

    def ancestors(self):
        cur = self.parent
        while cur is not None:
            yield cur
            cur = cur.parent


def _match_name(rest, names):
    for name in names:
        if rest == name or rest.startswith(name + " ") or \
                rest.startswith(name + "("):
            return name
    return None


def parse(text):
    """Source text -> (root Blk, [problems found while matching])."""
    root = Blk("root", "root", 0, "", None)
    root.linemap = {}
    cur = root
    problems = []
    pending_acc = None      # an '!$acc loop' waiting for its DO
    lines = text.split("\n")
    idx = 0
    while idx < len(lines):
        raw = lines[idx]
        idx += 1
        lno = idx
        low = raw.strip().lower()
        # continuation lines are joined (FortranWriter wraps at 132 only via
        # a separate line-length pass which is not used here)
        if low.endswith("&"):
            raise StructParseError(f"continuation line not supported: {raw}")
        if not low:
            continue
        if low.startswith("!") and not low.startswith("!$"):
            continue
        # The end directive of an OpenMP loop-associated construct is
        # optional: once its DO has been closed, anything but the matching
        # end directive closes the construct implicitly.
        while (cur.kind == "dir" and cur.name in OMP_LOOPDIRS and
               cur.children and cur.children[0].kind == "do" and
               getattr(cur.children[0], "closed", False) and
               " ".join(low.split()) != "!$" + "omp end " + cur.name[4:]):
            cur = cur.parent
        root.linemap[lno] = (_label(low), _dirname(
            pending_acc if pending_acc is not None else cur))
        if low.startswith("!$"):
            mat = re.match(r"!\$(omp|acc)\s+(.*)$", low)
            if not mat:
                raise StructParseError(f"unknown sentinel line: {raw}")
            fam, rest = mat.group(1), " ".join(mat.group(2).split())
            if pending_acc is not None:
                problems.append(("loop-directive-not-on-loop", pending_acc,
                                 None))
                pending_acc = None
            if rest.startswith("end "):
                name = _match_name(rest[4:], _OMP_BLOCK if fam == "omp"
                                   else _ACC_BLOCK)
                if name is None:
                    raise StructParseError(f"unknown end directive: {raw}")
                full = f"{fam} {name}"
                if cur.kind == "dir" and cur.name == full:
                    cur = cur.parent
                else:
                    node = Blk("alone", "end " + full, lno, low, cur)
                    problems.append(("unmatched-end", node, cur))
                continue
            name = _match_name(rest, _OMP_BLOCK if fam == "omp" else _ACC_BLOCK)
            if fam == "acc" and _match_name(rest, ["loop"]):
                node = Blk("accloop", "acc loop", lno, low, cur)
                node.collapse = _collapse(rest)
                pending_acc = node
                continue
            if name is not None:
                node = Blk("dir", f"{fam} {name}", lno, low, cur)
                node.collapse = _collapse(rest)
                cur = node
                continue
            name = _match_name(rest, _OMP_ALONE if fam == "omp" else _ACC_ALONE)
            if name is None:
                raise StructParseError(f"unknown directive: {raw}")
            Blk("alone", f"{fam} {name}", lno, low, cur)
            continue
        # ---- ordinary statements --------------------------------------
        is_do = re.match(r"(\w+\s*:\s*)?do(\s+\w+\s*=|\s+while\b|\s*$)", low)
        if is_do:
            parent = cur
            if pending_acc is not None:
                parent = pending_acc
                pending_acc = None
            node = Blk("do", "do", lno, low, parent)
            cur = node
            continue
        if pending_acc is not None:
            problems.append(("loop-directive-not-on-loop", pending_acc, None))
            pending_acc = None
        if re.match(r"end\s*do\b", low):
            if cur.kind == "do":
                cur.closed = True
                cur = cur.parent
                if cur.kind == "accloop":
                    cur = cur.parent
            else:
                node = Blk("stmt", "enddo", lno, low, cur)
                problems.append(("unmatched-end", node, cur))
            continue
        if re.match(r"(\w+\s*:\s*)?if\s*\(.*\)\s*then$", low):
            cur = Blk("if", "if", lno, low, cur)
            continue
        if re.match(r"else(\s*if\s*\(.*\)\s*then)?$", low):
            if cur.kind != "if":
                problems.append(("unmatched-end",
                                 Blk("stmt", "else", lno, low, cur), cur))
            continue
        if re.match(r"end\s*if\b", low):
            if cur.kind == "if":
                cur = cur.parent
            else:
                node = Blk("stmt", "endif", lno, low, cur)
                problems.append(("unmatched-end", node, cur))
            continue
        if re.match(r"(end\s*)?(subroutine|function|program|module)\b", low) \
                or low in ("end", "contains"):
            if cur is not root:
                problems.append(("unclosed-at-end-of-routine", cur, None))
                cur = root
            Blk("stmt", "unit", lno, low, root)
            continue
        Blk("stmt", "stmt", lno, low, cur)
    if pending_acc is not None:
        problems.append(("loop-directive-not-on-loop", pending_acc, None))
    if cur is not root:
        problems.append(("unclosed-at-end-of-routine", cur, None))
    return root, problems


def _dirname(blk):
    """Name of the closest directive block at or above blk ('none')."""
    while blk is not None:
        if blk.kind in ("dir", "accloop"):
            return blk.name
        blk = blk.parent
    return "none"


def _label(low):
    """Short class of a source line for signatures."""
    mat = re.match(r"!\$(omp|acc)\s+(end\s+)?(.*)$", low)
    if mat:
        fam, end, rest = mat.group(1), mat.group(2), " ".join(
            mat.group(3).split())
        names = (_OMP_BLOCK + _OMP_ALONE) if fam == "omp" else \
            (_ACC_BLOCK + ["loop"] + _ACC_ALONE)
        name = _match_name(rest, names) or "?"
        return ("end " if end else "") + f"{fam} {name}"
    if re.match(r"(\w+\s*:\s*)?do(\s+\w+\s*=|\s+while\b|\s*$)", low):
        return "do"
    if re.match(r"end\s*do\b", low):
        return "enddo"
    if re.match(r"(end\s*)?(subroutine|function|program|module)\b", low):
        return "unit"
    return "stmt"


def _collapse(rest):
    mat = re.search(r"\bcollapse\s*\(\s*(\d+)\s*\)", rest)
    return int(mat.group(1)) if mat else None


def walk(node):
    yield node
    for child in node.children:
        yield from walk(child)


def context_of_line(root, line):
    """(class of the source line, name of the closest directive block that was
    open when the line was read or 'none') - used to make compiler-error
    signatures specific."""
    return root.linemap.get(line, ("?", "?"))


def check(text):
    """Returns a list of (sig, message) for the explicit structural rules."""
    root, problems = parse(text)
    out = []
    for rule, node, other in problems:
        where = f"'{node.text}' (line {node.line})"
        if rule == "unmatched-end":
            out.append((f"struct:unmatched:{node.name}<{other.name}",
                        f"{where} closes nothing: the open block is "
                        f"'{other.text or other.name}'"))
        elif rule == "unclosed-at-end-of-routine":
            out.append((f"struct:unclosed:{node.name}",
                        f"{where} is still open at the end of the routine"))
        else:
            out.append((f"struct:not-on-loop:{node.name}",
                        f"{where} is not immediately followed by a DO loop"))
    has_acc_routine = any(n.kind == "alone" and n.name == "acc routine"
                          for n in walk(root))
    for node in walk(root):
        if node.kind not in ("dir", "accloop"):
            continue
        anc = [a.name for a in node.ancestors()
               if a.kind in ("dir", "accloop")]
        where = f"'{node.text}' (line {node.line})"
        # R4: loop directives are attached to exactly one DO
        if node.name in OMP_LOOPDIRS or node.kind == "accloop":
            kids = [c for c in node.children]
            if len(kids) != 1 or kids[0].kind != "do":
                if node.kind != "accloop" or kids:
                    out.append((f"struct:not-on-loop:{node.name}",
                                f"{where} does not enclose exactly one DO "
                                f"loop"))
        # R1
        if node.name == "omp do" and not any(a in OMP_PARALLEL for a in anc):
            out.append(("struct:outside-parallel:omp do",
                        f"{where} is not lexically inside an OpenMP "
                        f"parallel region"))
        if node.name == "omp loop" and not any(
                a in OMP_PARALLEL or a == "omp target" for a in anc):
            out.append(("struct:outside-parallel:omp loop",
                        f"{where} is not inside a parallel or target region"))
        if node.kind == "accloop" and not has_acc_routine and not any(
                a in ACC_COMPUTE for a in anc):
            out.append(("struct:outside-parallel:acc loop",
                        f"{where} is not inside an OpenACC parallel/kernels "
                        f"region and the routine has no '!$acc routine'"))
        # R2
        if node.name in OMP_PARALLEL:
            outer = [a for a in anc if a in OMP_PARALLEL]
            if outer:
                out.append((f"struct:nested-parallel:{node.name}<{outer[0]}",
                            f"{where} is nested inside an '!${outer[0]}' "
                            f"region"))
        if node.name in ACC_COMPUTE:
            outer = [a for a in anc if a in ACC_COMPUTE]
            if outer:
                out.append((f"struct:nested-parallel:{node.name}<{outer[0]}",
                            f"{where} is nested inside an '!${outer[0]}' "
                            f"region"))
        # R5: serial (work-sharing SINGLE / MASTER) regions closely nested in
        # one another, i.e. with no parallel construct in between (OpenMP 5.0
        # 2.20 nesting restrictions; PSyclone promises a GenerationError)
        if node.name in OMP_SERIAL:
            for outer in anc:
                if outer in OMP_PARALLEL:
                    break
                if outer in OMP_SERIAL:
                    out.append((f"struct:serial-in-serial:{node.name}<{outer}",
                                f"{where} is closely nested inside an "
                                f"'!${outer}' region"))
                    break
        # R3
        if node.collapse and node.collapse > 1 and \
                (node.name in OMP_LOOPDIRS or node.kind == "accloop"):
            kids = node.children
            if len(kids) == 1 and kids[0].kind == "do":
                loop = kids[0]
                for depth in range(1, node.collapse):
                    body = loop.children
                    if len(body) != 1 or body[0].kind != "do":
                        what = ", ".join(c.text for c in body[:3]) or "nothing"
                        out.append((
                            f"struct:collapse-not-perfect:{node.name}",
                            f"{where}: the body of loop {depth} of the "
                            f"collapse({node.collapse}) nest is not a single "
                            f"DO loop (it holds: {what})"))
                        break
                    loop = body[0]
    # de-duplicate, keep order
    seen = set()
    uniq = []
    for sig, msg in out:
        if sig not in seen:
            seen.add(sig)
            uniq.append((sig, msg))
    return root, uniq
