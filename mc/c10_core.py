"""C10 helper: seed routines, operation alphabet, replay of operation histories on
fresh PSyIR trees, canonical state text and the FortranWriter step.

Everything here drives the REAL PSyclone classes; nothing is modelled.  A state
is identified by the history (tuple of operations) that reaches it; ``build``
re-parses the seed with FortranReader and replays the history, so no PSyIR
object is ever shared between two states.
"""
import hashlib

# ---------------------------------------------------------------------------
# Seed routines (DESIGN.md C10: perfect 2- and 3-deep nests, imperfect nest,
# two sibling loops, loop + scalar statements, loop containing a call).
# Every routine is called ``c10seed`` so the judge can rename it textually.
# ---------------------------------------------------------------------------
RNAME = "c10seed"

SEEDS = {
    "nest2": """
subroutine c10seed(a, b, n, m)
  integer, intent(in) :: n, m
  real, intent(inout) :: a(n,m), b(n,m)
  integer :: i, j
  do j = 1, m
    do i = 1, n
      a(i,j) = b(i,j) + 1.0
    end do
  end do
end subroutine c10seed
""",
    "nest3": """
subroutine c10seed(c, n, m, l)
  integer, intent(in) :: n, m, l
  real, intent(inout) :: c(n,m,l)
  integer :: i, j, k
  do k = 1, l
    do j = 1, m
      do i = 1, n
        c(i,j,k) = 2.0 * c(i,j,k)
      end do
    end do
  end do
end subroutine c10seed
""",
    "imperf": """
subroutine c10seed(a, s, n, m)
  integer, intent(in) :: n, m
  real, intent(inout) :: a(n,m), s(m)
  integer :: i, j
  do j = 1, m
    do i = 1, n
      a(i,j) = a(i,j) + 1.0
    end do
    s(j) = 0.0
  end do
end subroutine c10seed
""",
    "sibl": """
subroutine c10seed(a, b, n)
  integer, intent(in) :: n
  real, intent(inout) :: a(n), b(n)
  integer :: i
  do i = 1, n
    a(i) = 1.0
  end do
  do i = 1, n
    b(i) = a(i) + 2.0
  end do
end subroutine c10seed
""",
    "scal": """
subroutine c10seed(a, n, t)
  integer, intent(in) :: n
  real, intent(inout) :: a(n)
  real, intent(inout) :: t
  integer :: i
  t = 0.5
  do i = 1, n
    a(i) = a(i) * t
  end do
  t = t + 1.0
end subroutine c10seed
""",
    "call": """
subroutine c10seed(a, n)
  integer, intent(in) :: n
  real, intent(inout) :: a(n)
  integer :: i
  do i = 1, n
    call c10ext(a(i), i)
  end do
end subroutine c10seed
""",
}
SEED_ORDER = ["nest2", "nest3", "imperf", "sibl", "scal", "call"]
FAMILIES = ["omp", "acc"]

# ---------------------------------------------------------------------------
# Alphabet.  An operation is the JSON-able list [trans, target, variant]:
#   trans   : key of TRANS below
#   target  : ["L", path]           a Loop node
#             ["R", path, lo, hi]   children lo..hi-1 of the Schedule at path
#             ["D", path]           an OMPParallelDirective node (taskwait)
#             ["T"]                 the Routine itself
#   variant : index into the transformation's option list
# A path is the list of child indices leading from the Routine to the node.
# ---------------------------------------------------------------------------
_COLL = [None, 2, 3]

# name -> (family, target kind, [option dicts])
TRANS = {
    # OpenMP regions
    "omp_parallel": ("omp", "R", [{}]),
    "omp_single": ("omp", "R", [{}]),
    "omp_master": ("omp", "R", [{}]),
    "omp_target": ("omp", "R", [{}]),
    # OpenMP loops; force=True skips ONLY the dependence analysis
    "omp_do": ("omp", "L", [{"force": True, "collapse": c} for c in _COLL]),
    "omp_paralleldo": ("omp", "L",
                       [{"force": True, "collapse": c} for c in _COLL]),
    "omp_teamsdistributeparalleldo": (
        "omp", "L", [{"force": True, "collapse": c} for c in _COLL]),
    "omp_loop": ("omp", "L", [{"force": True, "collapse": c} for c in _COLL]),
    "omp_parallelloop": ("omp", "L", [{"force": True}]),
    "omp_taskloop": ("omp", "L", [{"force": True}]),
    "omp_taskwait": ("omp", "D", [{}]),
    # OpenACC
    "acc_parallel": ("acc", "R", [{}]),
    "acc_kernels": ("acc", "R", [{}]),
    "acc_data": ("acc", "R", [{}]),
    "acc_loop": ("acc", "L", [
        {"force": True, "collapse": None},
        {"force": True, "collapse": 2},
        {"force": True, "collapse": 3},
        {"force": True, "collapse": None, "independent": False},
        {"force": True, "collapse": None, "sequential": True},
        {"force": True, "collapse": 2, "sequential": True}]),
    "acc_enterdata": ("acc", "T", [{}]),
    "acc_routine": ("acc", "T", [{}]),
}
TRANS_ORDER = list(TRANS)


def _options(name, variant):
    opts = dict(TRANS[name][2][variant])
    if opts.get("collapse", 0) is None:
        del opts["collapse"]
    return opts


def make_trans(name):
    """Instantiate the real transformation object for an alphabet entry."""
    # pylint: disable=import-outside-toplevel
    from psyclone import transformations as T
    from psyclone.psyir import transformations as PT
    if name == "omp_parallel":
        return T.OMPParallelTrans()
    if name == "omp_single":
        return T.OMPSingleTrans()
    if name == "omp_master":
        return T.OMPMasterTrans()
    if name == "omp_target":
        return PT.OMPTargetTrans()
    if name == "omp_do":
        return PT.OMPLoopTrans(omp_directive="do")
    if name == "omp_paralleldo":
        return PT.OMPLoopTrans(omp_directive="paralleldo")
    if name == "omp_teamsdistributeparalleldo":
        return PT.OMPLoopTrans(omp_directive="teamsdistributeparalleldo")
    if name == "omp_loop":
        return PT.OMPLoopTrans(omp_directive="loop")
    if name == "omp_parallelloop":
        return T.OMPParallelLoopTrans()
    if name == "omp_taskloop":
        return T.OMPTaskloopTrans()
    if name == "omp_taskwait":
        return PT.OMPTaskwaitTrans()
    if name == "acc_parallel":
        return T.ACCParallelTrans()
    if name == "acc_kernels":
        return PT.ACCKernelsTrans()
    if name == "acc_data":
        return T.ACCDataTrans()
    if name == "acc_loop":
        return T.ACCLoopTrans()
    if name == "acc_enterdata":
        return T.ACCEnterDataTrans()
    if name == "acc_routine":
        return T.ACCRoutineTrans()
    raise KeyError(name)


# ---------------------------------------------------------------------------
# Building states
# ---------------------------------------------------------------------------
def reset_singletons():
    """PSyclone singletons that could carry state between elements."""
    # pylint: disable=import-outside-toplevel
    # None of the transformations in the alphabet writes to a singleton (the
    # transformation objects themselves are created afresh for every
    # operation); the only setting that is READ is checked here so a changed
    # configuration cannot silently alter what is enumerated.
    from psyclone.configuration import Config
    if Config.get().reproducible_reductions:
        raise RuntimeError("C10 expects REPRODUCIBLE_REDUCTIONS = false")


def parse_seed(seed):
    """Fresh PSyIR for a seed -> (container, routine): the complete
    FortranReader path (fparser2 parse + PSyIR construction)."""
    # pylint: disable=import-outside-toplevel
    from psyclone.psyir.frontend.fortran import FortranReader
    from psyclone.psyir.nodes import Routine
    if not _READER:
        # one reader object per process (its constructor builds the fparser2
        # class tables, 10 ms); psyir_from_source() itself clears fparser's
        # symbol tables and parses the text afresh on every call
        _READER.append(FortranReader())
    psyir = _READER[0].psyir_from_source(SEEDS[seed])
    return psyir, psyir.walk(Routine)[0]


_READER = []


_PARSE_TREES = {}


def parse_seed_fast(seed):
    """Explorer-only variant: the fparser2 parse tree of the seed (5 ms, 80% of
    the cost of a transition) is produced once per process exactly as
    FortranReader does it; every call constructs a NEW PSyIR tree from it with
    the public Fparser2Reader.generate_psyir.  No PSyIR object is shared; the
    parse tree is only referenced (never modified) by the PSyIR.  Every state
    found this way is later rebuilt with parse_seed() and must have the same
    digest, so a difference between the two paths is a harness error."""
    # pylint: disable=import-outside-toplevel
    from fparser.common.readfortran import FortranStringReader
    from fparser.common.sourceinfo import FortranFormat
    from fparser.two.parser import ParserFactory
    from fparser.two.symbol_table import SYMBOL_TABLES
    from psyclone.psyir.frontend.fparser2 import Fparser2Reader
    from psyclone.psyir.nodes import Routine
    if seed not in _PARSE_TREES:
        SYMBOL_TABLES.clear()
        reader = FortranStringReader(SEEDS[seed])
        reader.set_format(FortranFormat(True, False))
        _PARSE_TREES[seed] = ParserFactory().create(std="f2008")(reader)
    psyir = Fparser2Reader().generate_psyir(_PARSE_TREES[seed])
    return psyir, psyir.walk(Routine)[0]


def node_at(routine, path):
    node = routine
    for idx in path:
        node = node.children[idx]
    return node


def path_of(routine, node):
    path = []
    while node is not routine:
        path.append(node.position)
        node = node.parent
    return list(reversed(path))


def resolve_target(routine, target):
    """Target description -> the object handed to ``apply``."""
    kind = target[0]
    if kind == "T":
        return routine
    if kind in ("L", "D"):
        return node_at(routine, target[1])
    sched = node_at(routine, target[1])
    return list(sched.children[target[2]:target[3]])


def enumerate_targets(routine):
    """All targets present in the current tree, in pre-order:
    {"L": [...], "R": [...], "D": [...], "T": [["T"]]}."""
    # pylint: disable=import-outside-toplevel
    from psyclone.psyir.nodes import Loop, Schedule, OMPParallelDirective
    out = {"L": [], "R": [], "D": [], "T": [["T"]]}
    for node in routine.walk((Loop, Schedule, OMPParallelDirective)):
        if isinstance(node, Loop):
            out["L"].append(["L", path_of(routine, node)])
        if isinstance(node, Schedule):
            num = len(node.children)
            path = path_of(routine, node)
            for width in range(1, num + 1):
                for low in range(0, num - width + 1):
                    out["R"].append(["R", path, low, low + width])
        if type(node) is OMPParallelDirective:  # pylint: disable=C0123
            out["D"].append(["D", path_of(routine, node)])
    return out


def enumerate_ops(routine, family):
    """Every operation of the family's alphabet on every matching target."""
    targets = enumerate_targets(routine)
    ops = []
    for name in TRANS_ORDER:
        fam, kind, variants = TRANS[name]
        if fam != family:
            continue
        idxs = range(len(variants))
        for tgt in targets[kind]:
            for var in idxs:
                ops.append([name, tgt, var])
    return ops


def apply_op(routine, oper):
    """Applies one operation with the real transformation.  Returns "ok" or
    "rej:<ExceptionClass>"; nothing is swallowed silently: every exception class
    is counted by the caller."""
    # pylint: disable=import-outside-toplevel
    name, target, variant = oper
    trans = make_trans(name)
    tgt = resolve_target(routine, target)
    opts = _options(name, variant)
    try:
        trans.apply(tgt, opts if opts else None)
    except Exception as err:  # pylint: disable=broad-except
        return "rej:" + type(err).__name__
    return "ok"


def build(seed, history, fast=False):
    """Fresh tree + replay.  Returns (psyir, routine, [outcome per op])."""
    reset_singletons()
    psyir, routine = parse_seed_fast(seed) if fast else parse_seed(seed)
    outcomes = []
    for oper in history:
        outcomes.append(apply_op(routine, oper))
    return psyir, routine, outcomes


def write(psyir):
    """Runs the real FortranWriter.  Returns ("text", src) or
    ("refused"|"crash", ExceptionClass, message)."""
    # pylint: disable=import-outside-toplevel
    from psyclone.psyir.backend.fortran import FortranWriter
    from psyclone.psyir.backend.visitor import VisitorError
    from psyclone.errors import GenerationError, PSycloneError
    try:
        return ("text", FortranWriter()(psyir))
    except (GenerationError, VisitorError) as err:
        return ("refused", type(err).__name__, str(err))
    except PSycloneError as err:
        return ("refused", type(err).__name__, str(err))
    except Exception as err:  # pylint: disable=broad-except
        return ("crash", type(err).__name__, str(err))


def canon(routine, written):
    """Canonical state text: the colour-free ``view()`` of the routine (node
    kinds, node attributes printed by node_str, child order) followed by what
    the writer produced (or the class of its refusal).  Two histories are merged
    only if both agree, so nothing that a later operation or the oracle can
    observe through the tree shape or the emitted text is dropped."""
    text = routine.view(colour=False)
    if written[0] == "text":
        tail = written[1]
    else:
        tail = f"<{written[0]}:{written[1]}>"
    return text + "\n=====\n" + tail


def digest(text):
    return hashlib.sha1(text.encode("utf-8")).hexdigest()[:20]


def op_str(oper):
    name, target, variant = oper
    opts = _options(name, variant)
    opts.pop("force", None)
    tgt = target[0] + "/".join(str(p) for p in target[1]) if len(target) > 1 \
        else target[0]
    if target[0] == "R":
        tgt += f"[{target[2]}:{target[3]}]"
    osx = ",".join(f"{k}={v}" for k, v in sorted(opts.items()))
    return f"{name}@{tgt}" + (f"({osx})" if osx else "")


def hist_str(history):
    return " ; ".join(op_str(o) for o in history) or "<seed>"
