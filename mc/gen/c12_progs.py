"""Corpus for C12 / C13: small straight-line programs over a statement
alphabet chosen for the ways a region can read an incoming value *after*
(textually) writing the same variable: partially written arrays, sub-range
loops, zero-trip loops, writes on one branch only, reductions, calls.

Every program is

    module c12m
    contains
      subroutine s(n, m, k, t, u, a, b, c, q, d, e)  ! arrays (0:4), q(0:4,0:4); m = 4
        ! a, b, c, q intent(inout); d intent(out) (undefined on entry: the
        ! inputs pass it all-POISON); e intent(in); w(0:4) is a local array
        <1..4 top-level statements>
      end subroutine
      subroutine inc(x) / fill(x, n) / getv(x, y)  ! helpers for the call statements
    end module

Keys are the ';'-joined statement keys, so the quick corpus is a subset of the
thorough one by construction.
"""
import itertools
from fractions import Fraction as F

HEADER = """module c12m
contains
subroutine s(n, m, k, t, u, a, b, c, q, d, e)
  integer, intent(in) :: n
  integer, intent(in) :: m
  integer, intent(inout) :: k
  real, intent(inout) :: t
  real, intent(inout) :: u
  real, intent(inout) :: a(0:4)
  real, intent(inout) :: b(0:4)
  real, intent(inout) :: c(0:4)
  real, intent(inout) :: q(0:4,0:4)
  real, intent(out) :: d(0:4)
  real, intent(in) :: e(0:4)
  integer :: i
  integer :: j
  real :: w(0:4)
"""
FOOTER = """end subroutine s
subroutine inc(x)
  real, intent(inout) :: x
  x = x + 1.0
end subroutine inc
subroutine fill(x, n)
  integer, intent(in) :: n
  real, intent(inout) :: x(0:n)
  integer :: ii
  do ii = 0, n
    x(ii) = 1.0
  end do
end subroutine fill
subroutine getv(x, y)
  real, intent(in) :: x(0:1)
  real, intent(out) :: y
  y = x(1)
end subroutine getv
end module c12m
"""

#: the statement alphabet: key -> source text (top-level statement)
STATEMENTS = {
    # scalars
    "t=2": "t = 2.0",
    "t=t+1": "t = t + 1.0",
    "u=t": "u = t",
    "t=a2": "t = a(2)",
    "k=k+1": "k = k + 1",
    "c1=max": "c(1) = max(t, u)",
    # array elements: partial writes and reads of other / the same element
    "a1=0": "a(1) = 0.0",
    "a2=a1": "a(2) = a(1) + 1.0",
    "b1=a2": "b(1) = a(2)",
    "ak=t": "a(k) = t",
    "a1+=b1": "a(1) = a(1) + b(1)",
    # sections
    "a:=0": "a(:) = 0.0",
    "a1n=b": "a(1:n) = b(1:n)",
    "b:=a": "b(:) = a(:) + 1.0",
    "t=sum": "t = sum(a(1:n))",
    # loops: sub-range, full range, recurrence, reduction, scalar temporary
    "La=0": "do i = 1, n\n  a(i) = 0.0\nend do",
    "Lb=a": "do i = 1, n\n  b(i) = a(i)\nend do",
    "Lfull": "do i = 0, m\n  a(i) = b(i)\nend do",
    "Lrec": "do i = 1, n\n  a(i) = a(i - 1) + 1.0\nend do",
    "Lred": "do i = 1, n\n  t = t + a(i)\nend do",
    "Ltmp": "do i = 1, n\n  t = a(i)\n  b(i) = t\nend do",
    "Lif": "do i = 1, n\n  if (a(i) > 2.0) then\n    b(i) = a(i)\n  end if\nend do",
    "Lifc": "do i = 1, n\n  if (c(i) < -2.0) then\n    b(i) = a(i)\n  end if\nend do",
    "Lifelse": "do i = 1, n\n  if (a(i) > 2.0) then\n    b(i) = a(i)\n  else\n    c(i) = a(i)\n  end if\nend do",
    "Lq": "do j = 1, n\n  do i = 1, n\n    q(i, j) = a(i) * b(j)\n  end do\nend do",
    "k=i": "k = i",
    # conditionals: conditionally written, written on one branch only
    "if(t)u": "if (t > 1.0) then\n  u = 2.0\nend if",
    "if(n)t|u": "if (n > 1) then\n  t = 1.0\nelse\n  u = 1.0\nend if",
    "if(k)a1": "if (k > 1) then\n  a(1) = 0.0\nend if",
    "if(a)b": "if (a(1) > 2.0) then\n  b(1) = 0.0\nend if",
    # calls to same-file routines (inout scalar, array fully written, array read)
    "inc(t)": "call inc(t)",
    "fill(a)": "call fill(a, m)",
    "getv(a,u)": "call getv(a, u)",
    # other storage classes: d is an intent(out) dummy (undefined on entry),
    # e an intent(in) dummy, w a local array (undefined on entry)
    "d:=1": "d(:) = 1.0",
    "Ld*=": "do i = 1, n\n  d(i) = d(i) * 2.0 + b(i)\nend do",
    "d1=e2": "d(1) = e(2)",
    "Lw=e": "do i = 1, n\n  w(i) = e(i) + 1.0\nend do",
    "Lb=w": "do i = 1, n\n  b(i) = w(i) * e(i)\nend do",
    "w:=0": "w(:) = 0.0",
    # a DO loop whose variable is the dummy k: statements that read k ("t=k",
    # "ak=t", "if(k)a1", "k=k+1", "Lbk") BEFORE it read k's incoming value
    "t=k": "t = k",
    "Lk": "do k = 1, n\n  a(k) = a(k) + t\nend do",
    "Lbk": "do i = 1, k\n  b(i) = 0.0\nend do",
}

_FULL = list(STATEMENTS)
_T3 = ["t=2", "u=t", "t=a2", "a1=0", "a2=a1", "b1=a2", "ak=t", "a:=0", "a1n=b",
       "La=0", "Lb=a", "Lfull", "Ltmp", "Lred", "if(t)u", "if(n)t|u", "if(k)a1",
       "inc(t)"]
_Q12 = ["t=2", "u=t", "t=a2", "a1=0", "b1=a2", "ak=t", "a:=0", "a1n=b", "La=0",
        "Lb=a", "Lfull", "Ltmp", "Lred", "Lifc", "Lifelse", "if(t)u", "if(n)t|u",
        "if(k)a1", "inc(t)", "fill(a)", "d:=1", "d1=e2", "Ld*=", "Lw=e", "Lb=w", "t=k", "Lk", "Lbk"]
_Q3 =["u=t", "t=a2", "a1=0", "b1=a2", "La=0", "Ltmp", "if(n)t|u"]

#: per tier: program length -> statement alphabet (quick is a subset of
#: thorough for every length)
ALPHABETS = {
    "quick": {1: _Q12, 2: _Q12, 3: _Q3, 4: ["a1=0", "t=a2", "La=0"]},
    "thorough": {1: _FULL, 2: _FULL, 3: _T3,
                 4: ["a1=0", "t=a2", "La=0", "if(t)u", "Lb=a", "if(n)t|u"]},
}
#: C13 runs three compute placements per program: smaller alphabets for the
#: longer programs
_C13_T3 = ["t=2", "t=a2", "a1=0", "b1=a2", "ak=t", "a:=0", "a1n=b", "b:=a",
           "La=0", "Lb=a", "Lfull", "Lrec", "Ltmp", "Lifc", "if(k)a1", "fill(a)"]
_C13_Q3 = ["t=a2", "a1=0", "a1n=b", "La=0", "Lb=a", "Ltmp", "Lrec"]
ALPHABETS_C13 = {
    "quick": {1: _Q12, 2: _Q12, 3: _C13_Q3},
    "thorough": {1: _FULL, 2: _FULL, 3: _C13_T3,
                 4: ["a1=0", "t=a2", "La=0", "Lb=a"]},
}
for _tab in (ALPHABETS, ALPHABETS_C13):
    for _len, _alpha in _tab["quick"].items():
        assert set(_alpha) <= set(_tab["thorough"][_len])
        assert set(_tab["thorough"][_len]) <= set(STATEMENTS)


def indent(text, pre="  "):
    return "".join(pre + line + "\n" for line in text.split("\n"))


def source(keys):
    body = "".join(indent(STATEMENTS[k]) for k in keys)
    return HEADER + body + FOOTER


def programs(tier, table=None):
    """Yields tuples of statement keys, shortest first, deterministic."""
    table = table or ALPHABETS
    for length in sorted(table[tier]):
        for combo in itertools.product(table[tier][length], repeat=length):
            yield combo


def key_of(keys):
    return ";".join(keys)


# ---------------------------------------------------------------------------
# inputs
# ---------------------------------------------------------------------------
MVAL = 4

#: (n, k, t, a-variant): every condition of the alphabet takes both values
#: (n>1, k>1, t>1.0, a(1)>2.0, a(i)>2.0, c(i)<-2.0) and loops run 0..3 times.
INPUTS = [
    (0, 1, F(7, 2), 0),
    (1, 2, F(1, 2), 1),
    (2, 1, F(1, 2), 0),
    (2, 2, F(7, 2), 1),
    (3, 1, F(7, 2), 1),
    (3, 2, F(1, 2), 0),
]


def input_key(inp):
    return f"n={inp[0]},k={inp[1]},t={float(inp[2])},av={inp[3]}"


def make_args(inp):
    """Fresh argument storage (n, m, k, t, u, a, b, c, q, d, e) for one input."""
    from mc.fortsem import interp as I
    nval, kval, tval, avar = inp
    rng = range(0, MVAL + 1)
    if avar == 0:
        avals = [F(2 * i + 1, 2) for i in rng]          # 0.5 1.5 2.5 3.5 4.5
    else:
        avals = [F(11 - 2 * i, 2) for i in rng]         # 5.5 4.5 3.5 2.5 1.5
    return [
        I.make_scalar("n", "int", nval),
        I.make_scalar("m", "int", MVAL),
        I.make_scalar("k", "int", kval),
        I.make_scalar("t", "real", tval),
        I.make_scalar("u", "real", F(-3, 2)),
        I.make_array("a", "real", [(0, MVAL)], avals),
        I.make_array("b", "real", [(0, MVAL)], [F(10 + 2 * i) for i in rng]),
        I.make_array("c", "real", [(0, MVAL)], [F(-4 * i - 1, 4) for i in rng]),
        I.make_array("q", "real", [(0, MVAL), (0, MVAL)],
                     [F(800 + 80 * i + 8 * j + 1, 8) for j in rng for i in rng]),
        # intent(out): undefined on entry (all POISON)
        I.make_array("d", "real", [(0, MVAL)], None),
        I.make_array("e", "real", [(0, MVAL)], [F(3 * i + 2, 2) for i in rng]),
    ]


ARG_NAMES = ["n", "m", "k", "t", "u", "a", "b", "c", "q", "d", "e"]
#: every array of routine s: dummies (inout a, b, c, q; out d; in e), local w
ARRAYS = ["a", "b", "c", "q", "d", "e", "w"]
