"""E5 generator for C19: tangent-linear kernels (module + subroutine) over a
small statement grammar, and the choices of active variables that make a body
legal tangent-linear code.

A body is a tree of items
    ("asg", lhs, terms)            lhs = access, terms = ((sign, coef, access), ...)
                                   no terms: ``lhs = 0.0``
    ("loop", kind, var, items)     kind names an entry of LOOPS (var is "i" or "j")
    ("if", cond, items, else_items_or_None)
access = (variable, (index text, ...)).

The corpus is a union of *families*; every family is the full product of the
small parameter sets written next to it, so the enumeration is exhaustive for
the bounds recorded by ``bounds(tier)``.  Everything is deterministic; the key
of a kernel is its compact body text.
"""
import itertools

# ---------------------------------------------------------------------------
# vocabulary
# ---------------------------------------------------------------------------
XA, YA = ("xa", ()), ("ya", ())
UI, UM, UP = ("u", ("i",)), ("u", ("i-1",)), ("u", ("i+1",))
VI = ("v", ("i",))
WIJ = ("w", ("i", "j"))
TA, TBI = ("ta", ()), ("tb", ("i",))          # local (automatic) variables
# array notation (top level only)
UA, VA, WA = ("u", (":",)), ("v", (":",)), ("w", (":", ":"))
UW, VW = ("u", ()), ("v", ())
US, VS, UL = ("u", ("1:n",)), ("v", ("1:n",)), ("u", ("0:n-1",))
WC = ("w", (":", "1"))

REALS = ("p", "q", "xa", "ya", "u", "v", "w")   # the real dummy arguments
LOCALS = ("ta", "tb")
CANDIDATES = REALS + LOCALS

# name -> (text with {B}, passive variables multiplying B, passive variables
#          dividing B)
COEFS = {
    "1": ("{B}", (), ()),
    "2": ("2.0*{B}", (), ()),
    "p": ("p*{B}", ("p",), ()),
    "Bp": ("{B}*p", ("p",), ()),
    "p2": ("p*2.0*{B}", ("p",), ()),
    "mp": ("(-p)*{B}", ("p",), ()),
    "q": ("q(i)*{B}", ("q",), ()),
    "pq": ("p*q(i)*{B}", ("p", "q"), ()),
    "/p": ("{B}/p", (), ("p",)),
    "/q": ("{B}/q(i)", (), ("q",)),
    "p/q": ("p*{B}/q(i)", ("p",), ("q",)),
    "qa": ("q(:)*{B}", ("q",), ()),
    "qs": ("q(1:n)*{B}", ("q",), ()),
}

# loop kinds: name -> (start, stop, step or None) in terms of the loop's own
# upper limit "n" (local n = m - 1, arrays are declared (0:m)) so that i-1 and
# i+1 stay inside the arrays for every kind.
LOOPS = {
    "up": ("1", "n", None),
    "dn": ("n", "1", "-1"),
    "in": ("2", "n - 1", None),
    "s2": ("1", "n", "2"),
    "d2": ("n", "1", "-2"),
    "e2": ("2", "n", "2"),
    "tri": ("1", "i", None),       # inner loops only
    # non-unit steps with a lower bound that is an expression (m - n is 1,
    # m - 1 is n)
    "c3": ("m - n", "n", "3"),
    "r3": ("m - 1", "1", "-3"),
}

CONDS = {
    "p>0": ("p > 0.0", ("p",), False),
    "q>h": ("q(i) > 0.5", ("q",), True),
    "i>1": ("i > 1", (), True),
}


def acc_txt(acc):
    var, idx = acc
    return f"{var}({','.join(idx)})" if idx else var


def asg(lhs, *terms):
    return ("asg", lhs, tuple(terms))


def loop(kind, items, var="i"):
    return ("loop", kind, var, tuple(items))


def ifb(cond, items, else_items=None):
    return ("if", cond, tuple(items),
            tuple(else_items) if else_items is not None else None)


# ---------------------------------------------------------------------------
# text
# ---------------------------------------------------------------------------
def term_txt(term, first):
    sign, coef, acc = term
    body = COEFS[coef][0].format(B=acc_txt(acc))
    if first:
        return ("-" if sign == "-" else "") + body
    return f" {sign} {body}"


def stmt_txt(item):
    _, lhs, terms = item
    if not terms:
        return f"{acc_txt(lhs)} = 0.0"
    rhs = "".join(term_txt(t, k == 0) for k, t in enumerate(terms))
    return f"{acc_txt(lhs)} = {rhs}"


def body_lines(items, indent):
    pad = "  " * indent
    out = []
    for item in items:
        if item[0] == "asg":
            out.append(pad + stmt_txt(item))
        elif item[0] == "loop":
            start, stop, step = LOOPS[item[1]]
            head = f"do {item[2]} = {start}, {stop}"
            if step:
                head += f", {step}"
            out.append(pad + head)
            out += body_lines(item[3], indent + 1)
            out.append(pad + "end do")
        else:
            out.append(pad + f"if ({CONDS[item[1]][0]}) then")
            out += body_lines(item[2], indent + 1)
            if item[3] is not None:
                out.append(pad + "else")
                out += body_lines(item[3], indent + 1)
            out.append(pad + "end if")
    return out


def key_of(items):
    parts = []
    for item in items:
        if item[0] == "asg":
            parts.append(stmt_txt(item).replace(" ", ""))
        elif item[0] == "loop":
            parts.append(f"{item[2].upper()}{item[1]}{{{key_of(item[3])}}}")
        else:
            txt = f"IF[{item[1]}]{{{key_of(item[2])}}}"
            if item[3] is not None:
                txt += f"EL{{{key_of(item[3])}}}"
            parts.append(txt)
    return ";".join(parts)


HEADER = """module tl_k_mod
contains
subroutine tl_k_code(m, p, q, xa, ya, u, v, w)
  integer, intent(in) :: m
  real, intent(in) :: p
  real, intent(in) :: q(0:m)
  real, intent(inout) :: xa
  real, intent(inout) :: ya
  real, intent(inout) :: u(0:m)
  real, intent(inout) :: v(0:m)
  real, intent(inout) :: w(0:m,0:m)
  real :: ta
  real :: tb(0:m)
  integer :: n
  integer :: i
  integer :: j
  n = m - 1
"""
FOOTER = """end subroutine tl_k_code
end module tl_k_mod
"""
TL_ROUTINE = "tl_k_code"
AD_ROUTINE = "adj_k_code"
ARGS = ("m", "p", "q", "xa", "ya", "u", "v", "w")


def kernel_source(items):
    return HEADER + "\n".join(body_lines(items, 1)) + "\n" + FOOTER


# ---------------------------------------------------------------------------
# static facts about a body (all independent of PSyclone)
# ---------------------------------------------------------------------------
def statements(items):
    """All assignments of a body in textual order."""
    out = []
    for item in items:
        if item[0] == "asg":
            out.append(item)
        elif item[0] == "loop":
            out += statements(item[3])
        else:
            out += statements(item[2])
            if item[3] is not None:
                out += statements(item[3])
    return out


def conditions(items):
    out = []
    for item in items:
        if item[0] == "loop":
            out += conditions(item[3])
        elif item[0] == "if":
            out.append(item[1])
            out += conditions(item[2])
            if item[3] is not None:
                out += conditions(item[3])
    return out


def has_loop(items):
    return any(item[0] == "loop" or
               (item[0] == "if" and (has_loop(item[2]) or
                                     (item[3] is not None and has_loop(item[3]))))
               for item in items)


def uses_extent(items):
    """Does the array extent (n, m) matter: a loop, or array notation."""
    if has_loop(items):
        return True
    for item in statements(items):
        accs = [item[1]] + [t[2] for t in item[2]]
        if any(a[0] in ARRAY_NAMES and (not a[1] or any(":" in x for x in a[1]))
               for a in accs):
            return True
    return False


ARRAY_NAMES = ("q", "u", "v", "w", "tb")


def stmt_vars(item):
    """Real variables referenced by an assignment."""
    _, lhs, terms = item
    out = {lhs[0]}
    for _sign, coef, acc in terms:
        out.add(acc[0])
        out.update(COEFS[coef][1])
        out.update(COEFS[coef][2])
    return out


def body_vars(items):
    out = set()
    for item in statements(items):
        out |= stmt_vars(item)
    for cond in conditions(items):
        out.update(CONDS[cond][1])
    return out


def legal(items, active):
    """Is the body tangent-linear code for this set of active variables
    (the documented form: every active statement is
    ``A = sum(passive expr * active var)`` with A active, active variables never
    in a denominator, conditions and loop bounds passive)?"""
    active = set(active)
    for cond in conditions(items):
        if active & set(CONDS[cond][1]):
            return False
    for item in statements(items):
        if not stmt_vars(item) & active:
            continue                      # passive statement
        _, lhs, terms = item
        if lhs[0] not in active:
            return False
        for _sign, coef, acc in terms:
            _txt, mul, div = COEFS[coef]
            if active & set(div):
                return False
            factors = [acc[0]] + list(mul)
            if sum(1 for f in factors if f in active) != 1:
                return False
    return True


def passive_hazard(items, active):
    """PSyAD documents (issue #1458) that moving passive statements in front of
    the active ones is invalid when a passive variable that the kernel modifies
    is also read by active code.  True when the body writes a passive real
    variable that an active statement or a condition of an active block reads."""
    active = set(active)
    written, read = set(), set()
    for item in statements(items):
        svars = stmt_vars(item)
        if not svars & active:
            written.add(item[1][0])
        else:
            read |= {v for v in svars if v not in active}
    for cond in conditions(items):
        read.update(CONDS[cond][1])
    return bool(written & read)


def active_choices(items):
    """Every non-empty set of the real variables referenced by the body for
    which the body is legal tangent-linear code (sorted tuples, deterministic
    order)."""
    names = [v for v in CANDIDATES if v in body_vars(items)]
    out = []
    for size in range(1, len(names) + 1):
        for combo in itertools.combinations(names, size):
            if legal(items, combo):
                out.append(combo)
    return out


def illegal_choices(items):
    names = [v for v in CANDIDATES if v in body_vars(items)]
    out = []
    for size in range(1, len(names) + 1):
        for combo in itertools.combinations(names, size):
            if not legal(items, combo):
                out.append(combo)
    return out


# ---------------------------------------------------------------------------
# statement families
# ---------------------------------------------------------------------------
# B candidates for each LHS (the LHS itself first: increment forms)
RHS_OF = {
    "T": {XA: (XA, YA), YA: (YA, XA)},
    "L1": {XA: (XA, YA, UI, UM), YA: (YA, XA, VI),
           UI: (UI, UM, UP, VI, XA), UM: (UM, UI, VI), UP: (UP, UI),
           VI: (VI, UI, UP, XA)},
    # fewer candidates: used for 2- and 3-term statements
    "L1s": {XA: (XA, UI, UM), UI: (UI, UM, VI), VI: (VI, UI, XA)},
    "L2": {WIJ: (WIJ, UI, XA), UI: (UI, WIJ), XA: (XA, WIJ), VI: (VI, WIJ)},
}


def one_term(ctx, lhs_list, coefs, signs=("+", "-"), zero=True):
    out = []
    for lhs in lhs_list:
        if zero:
            out.append(asg(lhs))
        for rhs in RHS_OF[ctx][lhs]:
            for coef in coefs:
                for sign in signs:
                    out.append(asg(lhs, (sign, coef, rhs)))
    return out


def multi_term(ctx, lhs_list, term_sets):
    """term_sets: per position (signs, coefs); B from RHS_OF[ctx]."""
    out = []
    for lhs in lhs_list:
        options = []
        for signs, coefs in term_sets:
            options.append([(s, c, b) for b in RHS_OF[ctx][lhs]
                            for c in coefs for s in signs])
        for combo in itertools.product(*options):
            out.append(asg(lhs, *combo))
    return out


# Representative statements for multi-statement bodies.  They are chosen so
# that consecutive statements depend on each other in every direction
# (write-after-read, read-after-write, same LHS twice, stencil neighbours).
# None of them subtracts its own left-hand side: those forms are covered by
# the single-statement families (see notes/C19.md, defect D1).
def reduced(ctx, tier):
    if ctx == "T":
        base = [
            asg(XA, ("+", "1", XA), ("+", "p", YA)),      # xa = xa + p*ya
            asg(YA, ("+", "2", XA)),                      # ya = 2.0*xa
            asg(XA, ("-", "1", YA)),                      # xa = -ya
            asg(YA, ("+", "p", YA)),                      # ya = p*ya
        ]
        more = [
            asg(XA),                                      # xa = 0.0
            asg(YA, ("+", "1", YA), ("-", "/p", XA)),     # ya = ya - xa/p
            asg(XA, ("+", "2", XA), ("-", "1", YA)),      # xa = 2.0*xa - ya
        ]
    elif ctx == "L1":
        base = [
            asg(XA, ("+", "1", XA), ("+", "p", UI)),      # xa = xa + p*u(i)
            asg(UI, ("+", "1", UI), ("+", "q", UM)),      # u(i) = u(i) + q(i)*u(i-1)
            asg(UI, ("+", "p", XA)),                      # u(i) = p*xa
            asg(VI, ("+", "1", UP), ("-", "1", UI)),      # v(i) = u(i+1) - u(i)
            asg(UM, ("+", "1", UM), ("+", "2", VI)),      # u(i-1) = u(i-1) + 2.0*v(i)
        ]
        more = [
            asg(VI),                                      # v(i) = 0.0
            asg(UI, ("+", "p", UI)),                      # u(i) = p*u(i)
            asg(YA, ("-", "1", XA)),                      # ya = -xa
            asg(VI, ("+", "1", VI), ("+", "/q", UI)),     # v(i) = v(i) + u(i)/q(i)
            asg(UI, ("+", "2", UI), ("-", "1", UP)),      # u(i) = 2.0*u(i) - u(i+1)
        ]
    else:
        base = [
            asg(WIJ, ("+", "1", WIJ), ("+", "p", UI)),    # w(i,j) = w(i,j) + p*u(i)
            asg(UI, ("+", "1", UI), ("+", "q", WIJ)),     # u(i) = u(i) + q(i)*w(i,j)
            asg(WIJ, ("+", "2", XA)),                     # w(i,j) = 2.0*xa
        ]
        more = [
            asg(XA, ("+", "1", XA), ("-", "1", WIJ)),     # xa = xa - w(i,j)
            asg(WIJ, ("+", "p", WIJ)),                    # w(i,j) = p*w(i,j)
            asg(VI, ("+", "1", WIJ)),                     # v(i) = w(i,j)
        ]
    return base + (more if tier == "thorough" else [])


def array_notation():
    """Array-notation statements (PSyAD turns them into loops first).  The same
    array never appears with different sections on both sides (PSyAD documents
    that as unsupported)."""
    return [
        asg(UA, ("+", "p", VA)),                          # u(:) = p*v(:)
        asg(UA, ("+", "1", UA), ("+", "qa", VA)),         # u(:) = u(:) + q(:)*v(:)
        asg(UW, ("+", "2", VW)),                          # u = 2.0*v
        asg(UW, ("+", "1", UW), ("-", "1", VW)),          # u = u - v
        asg(VS, ("+", "1", VS), ("+", "p", UL)),          # v(1:n) = v(1:n) + p*u(0:n-1)
        asg(VS, ("+", "1", UL), ("-", "qs", US)),         # v(1:n) = u(0:n-1) - q(1:n)*u(1:n)
        asg(US, ("+", "p", US)),                          # u(1:n) = p*u(1:n)
        asg(WC, ("+", "1", WC), ("+", "p", UA)),          # w(:,1) = w(:,1) + p*u(:)
        asg(UA, ("+", "p", XA)),                          # u(:) = p*xa
        asg(WA, ("+", "2", WA)),                          # w(:,:) = 2.0*w(:,:)
        asg(VA),                                          # v(:) = 0.0
        asg(VW),                                          # v = 0.0
    ]


def local_temporaries():
    """Bodies that use the local (automatic) real variables ta and tb(0:m);
    every local is written before it is read."""
    t_from_u = asg(TA, ("+", "p", UI))                    # ta = p*u(i)
    v_add_t = asg(VI, ("+", "1", VI), ("+", "1", TA))     # v(i) = v(i) + ta
    v_set_t = asg(VI, ("+", "q", TA))                     # v(i) = q(i)*ta
    t_zero = asg(TA)
    t_acc = asg(TA, ("+", "1", TA), ("+", "1", UI))       # ta = ta + u(i)
    x_from_t = asg(XA, ("+", "p", TA))                    # xa = p*ta
    x_add_t = asg(XA, ("+", "1", XA), ("-", "1", TA))     # xa = xa - ta
    tb_set = asg(TBI, ("+", "p", UI), ("+", "1", UM))     # tb(i) = p*u(i) + u(i-1)
    v_from_tb = asg(VI, ("+", "1", VI), ("+", "q", TBI))  # v(i) = v(i) + q(i)*tb(i)
    u_from_tb = asg(UI, ("+", "1", TBI))                  # u(i) = tb(i)
    t_from_x = asg(TA, ("+", "2", XA))                    # ta = 2.0*xa
    y_from_t = asg(YA, ("+", "1", YA), ("+", "1", TA))    # ya = ya + ta
    x_from_t2 = asg(XA, ("-", "1", TA))                   # xa = -ta
    return [
        [loop("up", [t_from_u, v_add_t])],
        [loop("s2", [t_from_u, v_set_t])],
        [loop("dn", [t_from_u, v_add_t, asg(UI, ("+", "1", TA))])],
        [t_zero, loop("up", [t_acc]), x_from_t],
        [t_zero, loop("up", [t_acc]), x_add_t],
        [t_zero, loop("up", [t_acc, v_add_t])],
        [loop("up", [tb_set]), loop("up", [v_from_tb])],
        [loop("up", [tb_set]), loop("dn", [u_from_tb])],
        [loop("up", [tb_set, v_from_tb])],
        [t_from_x, y_from_t],
        [t_from_x, x_from_t2],
        [t_from_x, ifb("p>0", [y_from_t], [x_from_t2])],
    ]


def corpus(tier):
    """List of (key, items, family), smallest first, no duplicates.  The quick
    corpus is a subset of the thorough one."""
    thorough = tier == "thorough"
    fams = []

    def add(name, bodies):
        fams.append((name, [tuple(b) for b in bodies]))

    pm = ("+", "-")
    # ---- A: one statement at the top level -------------------------------
    coefs_t = ["1", "2", "p", "Bp", "p2", "/p"] + (["mp"] if thorough else [])
    top1 = one_term("T", [XA, YA], coefs_t)
    top2 = multi_term("T", [XA, YA], [(pm, ("1", "p")), (pm, ("p",))])
    top3 = multi_term("T", [XA], [(pm, ("1",)), (pm, ("p",)), (("-",), ("2",))])
    if thorough:
        top2 += multi_term("T", [XA, YA], [(pm, ("1", "/p", "2")),
                                           (pm, ("1", "/p"))])
        top3 += multi_term("T", [XA], [(pm, ("1",)), (pm, ("p",)), (pm, ("2",))])
        top3 += multi_term("T", [YA], [(pm, ("p",)), (pm, ("1",)), (pm, ("/p",))])
    add("A1.top-1term", [[s] for s in top1])
    add("A2.top-2term", [[s] for s in top2])
    add("A3.top-3term", [[s] for s in top3])

    # ---- B: one statement inside one loop --------------------------------
    coefs_l = ["1", "2", "p", "Bp", "q", "pq", "/p", "/q", "p/q"] + \
        (["p2", "mp"] if thorough else [])
    lhs_l1 = [XA, YA, UI, UM, UP, VI]
    if thorough:
        loop1 = one_term("L1", lhs_l1, coefs_l)
    else:
        lhs_q = [XA, UI, UM, VI]
        loop1 = one_term("L1", lhs_q, coefs_l, signs=("+",)) + \
            one_term("L1", lhs_q, ["1", "p", "/q"], signs=("-",), zero=False)
    add("B1.loop-1term", [[loop("up", [s])] for s in loop1])
    loop2 = multi_term("L1s", [XA, UI], [(pm, ("p",)), (pm, ("1", "q"))])
    if thorough:
        loop2 += multi_term("L1s", [VI], [(pm, ("p",)), (pm, ("1", "q"))])
        loop2 += multi_term("L1", [UI], [(pm, ("1",)), (pm, ("1", "q"))])
    add("B2.loop-2term", [[loop("up", [s])] for s in loop2])
    loop3 = multi_term("L1s", [UI], [(("+",), ("p",)), (pm, ("1",)),
                                     (("-",), ("/q",))])
    if thorough:
        loop3 += multi_term("L1s", [UI], [(("+",), ("p",)), (pm, ("1",)),
                                          (pm, ("/q",))])
        loop3 += multi_term("L1s", [VI], [(pm, ("1",)), (pm, ("p",)),
                                          (("+",), ("q",))])
    add("B3.loop-3term", [[loop("up", [s])] for s in loop3])

    # ---- C: every loop kind around the representative statements ---------
    kinds = ["up", "dn", "in", "s2", "c3", "r3", "e2"] + (["d2"] if thorough else [])
    red1 = reduced("L1", "thorough")
    add("C1.loopkinds", [[loop(k, [s])] for k in kinds for s in red1])
    if thorough:
        add("C2.loopkinds-1term",
            [[loop(k, [s])] for k in kinds if k not in ("up", "c3", "r3")
             for s in one_term("L1", lhs_l1, ["1", "/q"], signs=("+",))])

    # ---- D: nested loops --------------------------------------------------
    red2 = reduced("L2", "thorough")
    pairs = [("up", "up"), ("dn", "s2"), ("s2", "dn"), ("in", "up")]
    if thorough:
        main = ("up", "dn", "in", "s2", "d2")
        pairs = [(a, b) for a in main for b in main] + \
            [(a, "tri") for a in ("up", "dn", "s2")] + \
            [("c3", "up"), ("up", "r3"), ("e2", "e2")]
    add("D1.nested", [[loop(a, [loop(b, [s], "j")])] for a, b in pairs
                      for s in red2])
    nest1 = one_term("L2", [WIJ, UI, XA, VI], ["1", "p", "q"] +
                     (["/q", "pq"] if thorough else []),
                     signs=pm if thorough else ("+",))
    add("D2.nested-1term", [[loop("up", [loop("up", [s], "j")])] for s in nest1])

    # ---- E: if blocks -----------------------------------------------------
    redt = reduced("T", "thorough")
    add("E1.if-top", [[ifb("p>0", [s])] for s in redt] +
        [[ifb("p>0", [s], [t])] for s in redt[:4] for t in redt[:4]])
    conds = ["p>0", "q>h", "i>1"]
    num = 10 if thorough else 5
    add("E2.loop-if", [[loop(k, [ifb(c, [s])])] for k in ("up", "s2")
                       for c in conds for s in red1[:num]])
    add("E3.if-loop", [[ifb("p>0", [loop(k, [s])])] for k in ("up", "dn")
                       for s in red1[:num]])
    add("E4.loop-if-else", [[loop("up", [ifb(c, [s], [t])])] for c in ("q>h", "i>1")
                            for s in red1[:4] for t in red1[:4]])

    # ---- F: two statements ------------------------------------------------
    rt = reduced("T", tier)
    r1 = reduced("L1", tier)
    r2 = reduced("L2", tier)
    k2 = ["up", "s2"] + (["dn"] if thorough else [])
    add("F1.top-seq2", [[s, t] for s in rt for t in rt])
    add("F2.loop-seq2", [[loop(k, [s, t])] for k in k2 for s in r1 for t in r1])
    add("F3.loop-then-stmt", [[loop("up", [s]), t] for s in r1 for t in rt] +
        [[t, loop("up", [s])] for s in r1 for t in rt])
    add("F4.two-loops", [[loop(a, [s]), loop(b, [t])]
                         for a, b in ((("up", "up"), ("up", "dn")) if thorough
                                      else (("up", "dn"),))
                         for s in r1 for t in r1])
    add("F5.nested-seq2", [[loop("up", [loop("up", [s, t], "j")])]
                           for s in r2 for t in r2] +
        [[loop("up", [s, loop("up", [t], "j")])] for s in r1[:3] for t in r2] +
        [[loop("up", [loop("up", [t], "j"), s])] for s in r1[:3] for t in r2])
    add("F6.if-seq2", [[ifb("p>0", [s, t])] for s in rt[:4] for t in rt[:4]] +
        [[ifb("p>0", [s]), t] for s in rt[:4] for t in rt[:4]] +
        [[loop("up", [ifb("i>1", [s]), t])] for s in r1[:4] for t in r1[:4]] +
        [[loop("up", [s, ifb("q>h", [t])])] for s in r1[:4] for t in r1[:4]])

    # ---- H, L: array notation, local active variables ---------------------
    arr = array_notation()
    add("H1.array-notation", [[s] for s in arr] +
        [[s, t] for s in arr[:6] for t in arr[:6] if thorough])
    add("L1.local-temporaries", local_temporaries())

    # ---- G: three statements (thorough) ----------------------------------
    if thorough:
        bt = reduced("T", "quick")
        b1 = reduced("L1", "quick")
        b2 = reduced("L2", "quick")
        add("G1.top-seq3", [[s, t, r] for s in bt for t in bt for r in bt] +
            [[s, t, r] for s in rt[4:] for t in rt for r in rt[4:]])
        add("G2.loop-seq3", [[loop(k, [s, t, r])] for k in ("up", "s2")
                             for s in b1 for t in b1 for r in b1])
        add("G3.mixed-seq3", [[s, loop("up", [t]), r] for s in bt for t in b1
                              for r in bt] +
            [[loop("up", [s]), r, loop("dn", [t])] for s in b1 for t in b1
             for r in bt])
        add("G4.nested-seq3", [[loop("up", [s, loop("up", [t, r], "j")])]
                               for s in b1[:3] for t in b2 for r in b2] +
            [[loop("up", [loop("up", [t], "j"), s, loop("dn", [r], "j")])]
             for s in b1[:3] for t in b2 for r in b2])
        add("G5.if-seq3", [[loop("up", [s, ifb("i>1", [t], [r])])]
                           for s in b1[:4] for t in b1[:4] for r in b1[:4]] +
            [[loop("up", [ifb("q>h", [s, t]), r])]
             for s in b1[:4] for t in b1[:4] for r in b1[:4]])

    seen = set()
    out = []
    for name, bodies in fams:
        for body in bodies:
            key = key_of(body)
            if key in seen:
                continue
            seen.add(key)
            out.append((key, body, name))
    return out


def family_sizes(tier):
    sizes = {}
    for _key, _body, name in corpus(tier):
        sizes[name] = sizes.get(name, 0) + 1
    return sizes
