"""C07 generator: caller x callee pairs in one module.

A program is identified by its key

    <family>:<kinds>|<body>|<actuals>|<placement>|<naming>|<ret>

kinds     one letter per dummy of the callee `c`
            S scalar            E x(nx)     Z x(0:mx)    A x(:)    L x(2:)
            M y(:,:)            N y(nx,nx)  T type(ty)
          (nx / mx are extra integer intent(in) dummies that receive the
          extent / extent-1 of the actual argument as an expression)
body      statement templates `name.dummy[.dummy]` separated by `;`
actuals   actual argument texts (caller variables n, m=n+1, k, r, a(m),
          b(0:n), q(m,m), p(2:4,0:3), w (type ty: f, d(4)), locals i, t,
          module g)
placement top | loop | if | twice | fexpr | floop | fif | ftwice
naming    N0 no clash | N1..N4 callee local named t / g / i / k |
          N5 dummies named k, i, r | N6 local named a
ret       R0 | R1 final `return` | R2 `return` after the first statement |
          R3 both

Actual-argument alphabets carry a level (0 = quick, 1 = thorough only); the
thorough corpus is the quick corpus followed by the thorough-only families, so
keys are tier independent.
"""
import itertools
import re

# --------------------------------------------------------------------------
# fixed program frame
# --------------------------------------------------------------------------
MODULE_HEAD = """module mo
  implicit none
  type :: ty
    integer :: f
    integer :: d(4)
  end type ty
  integer :: g
contains
"""

DRIVER = """  subroutine drv(n, m, k, r, a, b, q, p, w, og)
    integer, intent(in) :: n
    integer, intent(in) :: m
    integer, intent(inout) :: k
    integer, intent(inout) :: r
    integer, intent(inout) :: a(m)
    integer, intent(inout) :: b(0:n)
    integer, intent(inout) :: q(m, m)
    integer, intent(inout) :: p(2:4, 0:3)
    type(ty), intent(inout) :: w
    integer, intent(inout) :: og
    g = 40
    call s(n, m, k, r, a, b, q, p, w)
    og = g
  end subroutine drv
"""

CALLER_HEAD = """  subroutine s(n, m, k, r, a, b, q, p, w)
    integer, intent(in) :: n
    integer, intent(in) :: m
    integer, intent(inout) :: k
    integer, intent(inout) :: r
    integer, intent(inout) :: a(m)
    integer, intent(inout) :: b(0:n)
    integer, intent(inout) :: q(m, m)
    integer, intent(inout) :: p(2:4, 0:3)
    type(ty), intent(inout) :: w
    integer :: i
    integer :: t
    t = 5
    i = k
    g = g + 1
"""

CALLER_TAIL = """    r = r + 2 * t + 3 * i
  end subroutine s
"""

MODULE_TAIL = "end module mo\n"


# --------------------------------------------------------------------------
# alphabets
# --------------------------------------------------------------------------
# scalar actuals: (text, level)
SCALAR_ACTUALS = [
    ("k", 0), ("i", 0), ("5", 0), ("i + 1", 0), ("a(i)", 0), ("w%f", 0),
    ("g", 0), ("t", 1), ("r", 1), ("a(k)", 1), ("q(i, k)", 1), ("w%d(i)", 1),
    ("b(i)", 1), ("k + i", 1),
]
# second-position scalar actuals in quick pairs are restricted to these
# 1-D array actuals: (text, extent, extent - 1, level, kinds it is offered to)
ARRAY_ACTUALS = [
    ("a", "m", "n", 0, "EZAL"),
    ("b", "m", "n", 0, "EZAL"),
    ("a(2:m)", "n", "n - 1", 0, "EZAL"),
    ("b(1:n)", "n", "n - 1", 0, "EZAL"),
    ("a(n:1:-1)", "n", "n - 1", 0, "EA"),
    ("q(:, k)", "m", "n", 0, "EZAL"),
    ("w%d", "4", "3", 0, "EZAL"),
    # explicit-shape dummy deliberately smaller than the actual
    ("a~short", "n", "n - 1", 0, "EZ"),
    # sections of p(2:4, 0:3): different non-unit lower bounds per dimension,
    # range after / before a scalar subscript, starting at / above the
    # declared lower bound
    ("p(3, :)", "4", "3", 0, "EZAL"),
    ("p(m, 0:2)", "3", "2", 0, "EZAL"),
    ("p(:, 1)", "3", "2", 0, "EZAL"),
    ("p(2:3, k)", "2", "1", 1, "EZAL"),
    ("p(3, 1:3)", "3", "2", 1, "EZAL"),
    ("a(:)", "m", "n", 1, "EZAL"),
    ("q(k, :)", "m", "n", 1, "EZA"),
    ("a(2:n)", "n - 1", "n - 2", 1, "EZA"),
    ("b(0:n - 1)", "n", "n - 1", 1, "EZA"),
    ("q(2:m, k)", "n", "n - 1", 1, "EZA"),
    ("a(i:m)", "m - i + 1", "m - i", 1, "EA"),
]
# 2-D actuals: (text, extent of each dim, level)
MATRIX_ACTUALS = [
    ("q", "m", 0), ("q(1:n, 1:n)", "n", 0), ("q(:, :)", "m", 1),
    ("q(2:m, 1:n)", "n", 1),
    # p is 3 x 4: whole array only for assumed-shape dummies
    ("p", None, 0), ("p(:, 0:2)", "3", 0), ("p(3:4, 1:2)", "2", 1),
]
STRUCT_ACTUALS = [("w", 0)]

LOWER = {"E": 1, "Z": 0, "A": 1, "L": 2}


def upper_expr(kind, name):
    return {"E": f"n{name}", "Z": f"m{name}", "A": f"size({name})",
            "L": f"size({name}) + 1"}[kind]


# statement templates: name -> (roles, text, writes (role indices), level)
# roles: 'S' scalar, 'X' 1-D array, 'Y' 2-D array, 'V' structure; `{L}` local
STMTS = {
    "inc": ("S", "{0} = {0} + 1", [0], 0),
    "set": ("S", "{0} = 7", [0], 0),
    "get": ("S", "{L} = {0}", [], 0),
    "put": ("S", "{0} = {L}", [0], 0),
    "cpy": ("SS", "{0} = {1} * 2", [0], 0),
    "el": ("X", "{0}({lo}) = {0}({lo}) + 10", [0], 0),
    "el2": ("X", "{0}({lo1}) = {0}({lo}) * 2", [0], 0),
    "loop": ("X", "do {L} = {lo}, {hi}\n  {0}({L}) = {0}({L}) + {L}\nend do", [0], 0),
    "whole": ("X", "{0} = {0} + 1", [0], 0),
    "full": ("X", "{0}(:) = {0}(:) * 2", [0], 0),
    "sec": ("X", "{0}({lo}:{lo1}) = 4", [0], 0),
    "bnd": ("X", "{0}({lo}) = lbound({0}, 1) + 10 * ubound({0}, 1)", [0], 0),
    "sum": ("X", "{0}({lo}) = sum({0})", [0], 0),
    # local automatic array with the bounds of the (explicit-shape) dummy
    "tmp": ("X", "la({lo}) = {0}({lo})\n{0}({lo}) = la({lo}) + 3", [0], 0),
    "idx": ("XS", "{0}({1}) = 30", [0], 0),
    "rd": ("XS", "{1} = {0}({lo})", [1], 0),
    "wr": ("XS", "{0}({lo}) = {1}", [0], 0),
    "xcp": ("XX", "{0}({lo}) = {1}({lo_1}) + 1", [0], 1),
    "mel": ("Y", "{0}(2, 1) = {0}(1, 2) + 1", [0], 0),
    "mloop": ("Y", "do {L} = 1, {hi}\n  {0}({L}, 1) = {0}(1, {L}) + {L}\nend do", [0], 0),
    "mcol": ("Y", "{0}(:, 2) = 3", [0], 0),
    "mwhole": ("Y", "{0} = {0} * 2", [0], 0),
    "midx": ("YS", "{0}({1}, 2) = 9", [0], 0),
    "tf": ("V", "{0}%f = {0}%f + 1", [0], 0),
    "td": ("V", "{0}%d(1) = {0}%d(2) + 5", [0], 0),
    "tfull": ("V", "{0}%d(:) = {0}%d(:) + 1", [0], 0),
    "tidx": ("VS", "{0}%d({1}) = 6", [0], 0),
    "gmod": ("", "g = g + 1", [], 0),
}
USES_LOCAL = {name for name, spec in STMTS.items() if "{L}" in spec[1]}
DEFINES_LOCAL = {"get", "loop", "mloop"}

ROLE_OF_KIND = {"S": "S", "E": "X", "Z": "X", "A": "X", "L": "X",
                "M": "Y", "N": "Y", "T": "V"}

NAMINGS = {
    # name: (dummy names, local name, level)
    "N0": (("x", "y", "z"), "l1", 0),
    "N1": (("x", "y", "z"), "t", 0),
    "N2": (("x", "y", "z"), "g", 0),
    "N3": (("x", "y", "z"), "i", 0),
    "N4": (("x", "y", "z"), "k", 0),
    "N5": (("k", "i", "r"), "l1", 0),
    "N6": (("x", "y", "z"), "a", 1),
}

SUB_PLACEMENTS = [("top", 0), ("loop", 0), ("if", 0), ("twice", 0)]
FUN_PLACEMENTS = [("fexpr", 0), ("floop", 0), ("fif", 0), ("ftwice", 0)]


# --------------------------------------------------------------------------
# building one program
# --------------------------------------------------------------------------
def indent(text, pre):
    return "".join(pre + line + "\n" for line in text.split("\n") if line)


def parse_body(body):
    """'inc.1;idx.1.2' -> [('inc', (0,)), ('idx', (0, 1))]"""
    out = []
    if not body:
        return out
    for item in body.split(";"):
        parts = item.split(".")
        out.append((parts[0], tuple(int(p) - 1 for p in parts[1:])))
    return out


def written_dummies(kinds, stmts):
    out = set()
    for name, slots in stmts:
        for role in STMTS[name][2]:
            out.add(slots[role])
    return out


def stmt_text(name, slots, kinds, dnames, local):
    text = STMTS[name][1]
    fmt = {"L": local}
    if slots:
        first = slots[0]
        kind = kinds[first]
        if kind in LOWER:
            fmt["lo"] = LOWER[kind]
            fmt["lo1"] = LOWER[kind] + 1
            fmt["hi"] = upper_expr(kind, dnames[first])
        elif kind == "N":
            fmt["hi"] = f"n{dnames[first]}"
        elif kind == "M":
            fmt["hi"] = f"size({dnames[first]}, 1)"
        if len(slots) > 1 and kinds[slots[1]] in LOWER:
            fmt["lo_1"] = LOWER[kinds[slots[1]]]
    return text.format(*[dnames[s] for s in slots], **fmt)


def callee_source(kinds, stmts, naming, ret, function):
    dnames, local, _lvl = NAMINGS[naming]
    written = written_dummies(kinds, stmts)
    arglist = []
    decls = []
    for pos, kind in enumerate(kinds):
        name = dnames[pos]
        intent = "inout" if pos in written else "in"
        arglist.append(name)
        if kind == "S":
            decls.append(f"integer, intent({intent}) :: {name}")
        elif kind == "E":
            arglist.append(f"n{name}")
            decls.insert(0, f"integer, intent(in) :: n{name}")
            decls.append(f"integer, intent({intent}) :: {name}(n{name})")
        elif kind == "Z":
            arglist.append(f"m{name}")
            decls.insert(0, f"integer, intent(in) :: m{name}")
            decls.append(f"integer, intent({intent}) :: {name}(0:m{name})")
        elif kind == "A":
            decls.append(f"integer, intent({intent}) :: {name}(:)")
        elif kind == "L":
            decls.append(f"integer, intent({intent}) :: {name}(2:)")
        elif kind == "M":
            decls.append(f"integer, intent({intent}) :: {name}(:, :)")
        elif kind == "N":
            arglist.append(f"n{name}")
            decls.insert(0, f"integer, intent(in) :: n{name}")
            decls.append(f"integer, intent({intent}) :: {name}(n{name}, n{name})")
        elif kind == "T":
            decls.append(f"type(ty), intent({intent}) :: {name}")
    if any(name in USES_LOCAL for name, _s in stmts):
        decls.append(f"integer :: {local}")
    for name, slots in stmts:
        if name == "tmp":
            dname = dnames[slots[0]]
            decls.append(f"integer :: la(n{dname})" if kinds[slots[0]] == "E"
                         else f"integer :: la(0:m{dname})")
            break
    lines = [stmt_text(name, slots, kinds, dnames, local) for name, slots in stmts]
    if function:
        first = kinds[0]
        res = {"S": "{0} * 2", "T": "{0}%f + 1", "M": "{0}(1, 1) + 1",
               "N": "{0}(1, 1) + 1"}.get(first, "{0}({lo}) + 1")
        lines.append("c = " + res.format(dnames[0], lo=LOWER.get(first, 1)))
    if ret == "R1":
        lines.append("return")
    elif ret == "R2":
        lines.insert(1, "return")
    elif ret == "R3":
        lines.insert(1, "return")
        lines.append("return")
    head = (f"  integer function c({', '.join(arglist)})\n" if function
            else f"  subroutine c({', '.join(arglist)})\n")
    tail = "  end function c\n" if function else "  end subroutine c\n"
    return head + indent("\n".join(decls), "    ") + \
        indent("\n".join(lines), "    ") + tail


def actual_list(kinds, actuals):
    """Actual argument texts including the extent expressions."""
    out = []
    for kind, act in zip(kinds, actuals):
        if kind in "EZ":
            text, ext, extm1 = _array_actual(act)
            out.append(text)
            out.append(ext if kind == "E" else extm1)
        elif kind == "N":
            text, ext = _matrix_actual(act)
            out.append(text)
            out.append(ext)
        elif kind in "AL":
            out.append(_array_actual(act)[0])
        else:
            out.append(act)
    return out


def _array_actual(act):
    for text, ext, extm1, _lvl, _kinds in ARRAY_ACTUALS:
        if text == act:
            return ("a" if text == "a~short" else text), ext, extm1
    raise KeyError(act)


def _matrix_actual(act):
    for text, ext, _lvl in MATRIX_ACTUALS:
        if text == act:
            return text, ext
    raise KeyError(act)


def placement_source(place, args):
    call = f"c({', '.join(args)})"
    if place == "top":
        return f"call {call}"
    if place == "loop":
        return f"do i = 1, n\n  call {call}\nend do"
    if place == "if":
        return f"if (k > 1) then\n  call {call}\nelse\n  r = r + 1\nend if"
    if place == "twice":
        return f"call {call}\ncall {call}"
    if place == "fexpr":
        return f"r = {call} + 1"
    if place == "floop":
        return f"do i = 1, n\n  r = r + {call}\nend do"
    if place == "fif":
        return f"if ({call} > 20) then\n  r = r + 1\nend if"
    if place == "ftwice":
        return f"r = {call} + 2 * {call}"
    raise KeyError(place)


def base_name(actual):
    """Base variable of an actual argument text (None for literals)."""
    mat = re.match(r"\s*([a-z_]\w*)", actual)
    return mat.group(1) if mat else None


def function_rule_ok(kinds, stmts, args_by_dummy, statement):
    """F2008 7.1.4: if a function reference defines an actual argument, that
    argument (conservatively: its base variable) shall not appear elsewhere
    in the same statement."""
    for pos in written_dummies(kinds, stmts):
        base = base_name(args_by_dummy[pos])
        if base is None:
            continue
        if len(re.findall(rf"\b{base}\b", statement)) != 1:
            return False
    return True


def _function_ok(kinds, stmts, actuals, place):
    text = placement_source(place, actual_list(kinds, actuals))
    stmt = [ln for ln in text.split("\n") if "c(" in ln][0]
    return function_rule_ok(kinds, stmts, actuals, stmt)


def source(kinds, body, actuals, place, naming="N0", ret="R0"):
    """Full module text, or None if the pair is statically inadmissible
    (function side-effect rule)."""
    stmts = parse_body(body)
    function = place.startswith("f")
    args = actual_list(kinds, actuals)
    text = placement_source(place, args)
    if function:
        stmt = [ln for ln in text.split("\n") if "c(" in ln][0]
        if not function_rule_ok(kinds, stmts, actuals, stmt):
            return None
    callee = callee_source(kinds, stmts, naming, ret, function)
    return (MODULE_HEAD + DRIVER + CALLER_HEAD + indent(text, "    ") +
            CALLER_TAIL + callee + MODULE_TAIL)


def make_key(fam, kinds, body, actuals, place, naming, ret):
    return f"{fam}:{kinds}|{body}|{','.join(actuals)}|{place}|{naming}|{ret}"


def source_from_key(key):
    _fam, rest = key.split(":", 1)
    kinds, body, actuals, place, naming, ret = rest.split("|")
    acts = _split_actuals(actuals)
    return source(kinds, body, acts, place, naming, ret)


def _split_actuals(text):
    out, depth, cur = [], 0, ""
    for char in text:
        if char == "(":
            depth += 1
        elif char == ")":
            depth -= 1
        if char == "," and depth == 0:
            out.append(cur)
            cur = ""
        else:
            cur += char
    out.append(cur)
    return out


# --------------------------------------------------------------------------
# enumeration
# --------------------------------------------------------------------------
def instantiations(kinds, level, allowed):
    """All statement instances `name.slots` available for a callee with the
    given dummy kinds (statement names restricted to `allowed`)."""
    roles = [ROLE_OF_KIND[k] for k in kinds]
    out = []
    for name in allowed:
        need, _text, _wr, lvl = STMTS[name]
        if lvl > level:
            continue
        for slots in itertools.permutations(range(len(kinds)), len(need)):
            if all(roles[s] == r for s, r in zip(slots, need)):
                if name == "tmp" and kinds[slots[0]] not in "EZ":
                    continue
                if name == "sec" and kinds[slots[0]] == "L":
                    # FortranWriter cannot print x(2:3) of x(2:) (defect
                    # outside this property): not generated
                    continue
                out.append((name, slots))
    return out


def bodies(kinds, maxlen, level, allowed):
    """All statement sequences of length 1..maxlen that use every dummy and
    never read the callee's local before it is defined."""
    inst = instantiations(kinds, level, allowed)
    out = []
    for length in range(1, maxlen + 1):
        for seq in itertools.product(inst, repeat=length):
            used = set()
            for _name, slots in seq:
                used.update(slots)
            if used != set(range(len(kinds))):
                continue
            defined = False
            okay = True
            for name, _slots in seq:
                if name == "put" and not defined:
                    okay = False
                    break
                if name in DEFINES_LOCAL:
                    defined = True
            if not okay:
                continue
            out.append(";".join(".".join([name] + [str(s + 1) for s in slots])
                                for name, slots in seq))
    return out


def actual_choices(kind, level):
    if kind == "S":
        return [t for t, lvl in SCALAR_ACTUALS if lvl <= level]
    if kind in "EZAL":
        return [t for t, _e, _m, lvl, kinds in ARRAY_ACTUALS
                if lvl <= level and kind in kinds]
    if kind in "MN":
        return [t for t, ext, lvl in MATRIX_ACTUALS
                if lvl <= level and not (kind == "N" and ext is None)]
    return [t for t, lvl in STRUCT_ACTUALS if lvl <= level]


def definable(actual):
    """A variable, array element / section or structure component (may be
    associated with a dummy that the callee defines); literals and other
    expressions are not definable."""
    return actual == "a~short" or \
        re.fullmatch(r"[a-z]\w*(%\w+)?(\(.*\))?", actual) is not None


def uses_local(body):
    return any(name in USES_LOCAL for name, _s in parse_body(body))


def family(fam, kinds_list, allowed, maxlen, level, places, namings=("N0",),
           rets=("R0",), actual_filter=None, body_filter=None, minlen=1):
    """Full product: callee signatures x bodies x actual tuples x placements
    x naming schemes x return variants (filters only remove elements)."""
    for kinds in kinds_list:
        blist = bodies(kinds, maxlen, 1, allowed)
        blist = [b for b in blist if b.count(";") + 1 >= minlen]
        if body_filter is not None:
            blist = [b for b in blist if body_filter(b)]
        choices = [actual_choices(k, level) for k in kinds]
        for body in blist:
            local = uses_local(body)
            stmts = parse_body(body)
            nlen = len(stmts)
            written = written_dummies(kinds, stmts)
            for acts in itertools.product(*choices):
                if actual_filter is not None and not actual_filter(kinds, acts):
                    continue
                # a dummy that the callee defines is INTENT(INOUT): the
                # actual must be definable or the program is not Fortran
                if any(not definable(acts[pos]) for pos in written):
                    continue
                for place in places:
                    # the DO variable cannot be an actual argument of a
                    # dummy that is defined (F2008 C?? / 8.1.6.6.?)
                    if place in ("loop", "floop") and \
                            any(acts[pos] == "i" for pos in written):
                        continue
                    if place.startswith("f") and not _function_ok(
                            kinds, stmts, acts, place):
                        continue
                    for naming in namings:
                        if naming in ("N1", "N2", "N3", "N4", "N6") and not local:
                            continue
                        if naming == "N2" and "gmod" in body:
                            continue
                        for ret in rets:
                            if ret in ("R2", "R3") and nlen < 2:
                                continue
                            yield make_key(fam, kinds, body, acts, place, naming, ret)


SUB = ["top", "loop", "if", "twice"]
FUN = ["fexpr", "floop", "fif", "ftwice"]
SCAL = ["inc", "set", "get", "put", "cpy"]
ARR = ["el", "el2", "loop", "whole", "full", "sec", "bnd", "sum", "tmp"]
ARRS = ["idx", "rd", "wr"]
MAT = ["mel", "mloop", "mcol", "mwhole"]
STRU = ["tf", "td", "tfull"]
CLASH = ["N1", "N2", "N3", "N4", "N5"]


def only(*allowed_per_dummy):
    """Actual filter: dummy j's actual must be in allowed_per_dummy[j]
    (None = unrestricted)."""
    def filt(_kinds, acts):
        return all(allow is None or act in allow
                   for act, allow in zip(acts, allowed_per_dummy))
    return filt


def quick_families():
    lev = 0
    few = ("k", "i", "a(i)")
    yield family("SC", ["S"], ["inc", "set", "get", "put"], 2, lev, ["top", "loop"],
                 actual_filter=only(("k", "a(i)", "g")))
    yield family("SC", ["S"], ["inc", "get", "put"], 2, lev, ["twice"],
                 actual_filter=only(("k",)))
    yield family("SC", ["SS"], ["inc", "set", "cpy"], 2, lev, ["top"],
                 actual_filter=only(("k", "i + 1", "a(i)"), ("i",)))
    yield family("SC", ["SS"], ["inc", "set", "cpy"], 2, lev, ["if"],
                 actual_filter=only(("a(i)", "i + 1"), ("i",)))
    yield family("SC", ["SS"], ["inc", "cpy"], 2, lev, ["loop"],
                 actual_filter=only(("a(i)",), ("k",)))
    yield family("SC", ["SS"], ["get", "put"], 2, lev, ["top"], minlen=2,
                 actual_filter=only(("k", "i + 1", "a(i)"), ("k", "i")))
    yield family("AR", ["E", "Z", "A", "L"], ARR, 1, lev, ["top"],
                 actual_filter=only(("a", "a(2:m)", "b(1:n)", "a(n:1:-1)", "w%d",
                                     "a~short", "p(3, :)", "p(m, 0:2)", "p(:, 1)")))
    yield family("AR", ["E", "Z", "A", "L"], ARR, 1, lev, ["loop"],
                 actual_filter=only(("w%d",)))
    yield family("AR", ["E", "Z", "A", "L"], ["el", "loop", "whole"], 2, lev,
                 ["top"], minlen=2, actual_filter=only(("a(2:m)", "w%d")))
    yield family("AS", ["ES", "ZS", "AS", "LS"], ARRS, 1, lev, ["top"],
                 actual_filter=only(("a", "w%d"), few))
    yield family("AS", ["ES", "ZS", "AS", "LS"], ARRS, 1, lev, ["loop"],
                 actual_filter=only(("a",), few))
    yield family("AS", ["ES", "ZS", "AS"], ["idx", "rd"], 1, lev, ["top"],
                 actual_filter=only(("p(3, :)", "p(:, 1)"), ("k", "i")))
    yield family("AR", ["A"], ["el", "sec", "loop"], 2, lev, ["top"],
                 minlen=2, actual_filter=only(("p(3, :)", "p(m, 0:2)")))
    yield family("AS", ["ES", "ZS", "AS"], ARRS + ["inc"], 2, lev, ["top"],
                 minlen=2, body_filter=lambda b: b.count("inc") == 1,
                 actual_filter=only(("a", "b(1:n)"), ("i", "a(i)")))
    yield family("A2", ["ZA"], ["el", "whole"], 2, lev, ["top"],
                 actual_filter=only(("a", "b"), ("b", "w%d")))
    yield family("M2", ["M", "N"], MAT, 1, lev, ["top", "loop"])
    yield family("M2", ["M"], ["mel", "mwhole"], 1, lev, ["twice"],
                 actual_filter=only(("q", "p")))
    yield family("MS", ["MS", "NS"], ["midx"], 1, lev, ["top", "loop"],
                 actual_filter=only(("q", "p", "p(:, 0:2)"), few))
    yield family("ST", ["T"], STRU, 2, lev, ["top", "loop"])
    yield family("TS", ["TS"], ["tidx"], 1, lev, ["top", "loop"],
                 actual_filter=only(None, few))
    yield family("NM", ["S"], ["get", "put", "inc"], 2, lev, ["top"],
                 namings=CLASH, actual_filter=only(("k", "a(i)")))
    yield family("NM", ["S"], ["get", "put"], 2, lev, ["loop"], minlen=2,
                 namings=CLASH, actual_filter=only(("k",)))
    yield family("NM", ["S"], ["get", "put"], 2, lev, ["if"], minlen=2,
                 namings=CLASH, actual_filter=only(("k",)))
    yield family("NM", ["SS"], ["cpy", "inc"], 2, lev, ["top"], namings=["N5"],
                 actual_filter=only(("i", "a(i)"), ("k", "i")))
    yield family("NM", ["E", "A"], ["loop", "el"], 1, lev, ["top", "twice"],
                 namings=CLASH, actual_filter=only(("a", "b(1:n)")))
    yield family("NM", ["M"], ["mloop"], 1, lev, ["top", "loop"], namings=CLASH)
    yield family("RT", ["S", "A"], ["inc", "set", "el", "loop"], 2, lev,
                 ["top", "loop"], rets=["R1", "R2", "R3"],
                 actual_filter=only(("k", "a")))
    yield family("GM", ["S"], ["gmod", "inc"], 2, lev, ["top"],
                 body_filter=lambda b: "gmod" in b,
                 actual_filter=only(("k", "g")))
    yield family("FN", ["S"], ["inc", "get", "put"], 2, lev,
                 ["fexpr", "floop"], namings=["N0", "N1", "N5"],
                 actual_filter=only(("k", "a(i)")))
    yield family("FN", ["S"], ["get"], 1, lev, FUN,
                 actual_filter=only(("i + 1", "5")))
    yield family("FN", ["S"], ["inc", "get"], 1, lev, ["fexpr", "floop"],
                 rets=["R1"], actual_filter=only(("k", "a(i)")))
    yield family("FN", ["SS"], ["inc", "cpy"], 1, lev, FUN,
                 actual_filter=only(few, few))
    yield family("FN", ["E", "Z", "A"], ["el", "loop", "sum"], 1, lev, FUN,
                 namings=["N0", "N3"], actual_filter=only(("a(2:m)", "w%d")))
    yield family("FN", ["M", "T"], ["mel", "tf", "td"], 1, lev, FUN)


def thorough_families():
    lev = 1
    base = tuple(t for t, lvl in SCALAR_ACTUALS if lvl == 0)
    few = ("k", "i", "i + 1", "a(i)")
    names = CLASH + ["N6"]
    arr6 = ("a", "b", "a(2:m)", "b(1:n)", "q(:, k)", "w%d")
    yield family("SC", ["S"], ["inc", "set", "get", "put"], 3, lev, SUB)
    yield family("SC", ["SS"], SCAL, 2, lev, ["top", "loop", "if"],
                 actual_filter=only(base, base))
    yield family("SC", ["SS"], ["inc", "set", "cpy"], 3, lev, ["top"], minlen=3,
                 actual_filter=only(("k", "i + 1", "a(i)"), ("k", "i")))
    yield family("SC", ["SSS"], ["inc", "set", "cpy"], 2, lev, ["top"],
                 actual_filter=only(few, few, few))
    yield family("AR", ["E", "Z", "A", "L"], ARR, 2, lev, SUB)
    yield family("AR", ["E", "Z", "A", "L"], ["el", "loop", "whole"], 3, lev,
                 ["top"], minlen=3, actual_filter=only(("a(2:m)", "b", "w%d")))
    yield family("AS", ["ES", "ZS", "AS", "LS"], ARRS + ["el", "inc"], 2, lev,
                 ["top"], actual_filter=only(None, few + ("5",)))
    yield family("AS", ["ES", "ZS", "AS", "LS"], ARRS + ["inc"], 2, lev,
                 ["loop", "if", "twice"],
                 actual_filter=only(("a", "b(1:n)", "w%d"), few))
    yield family("A2", ["EE", "ZA", "AE", "AA"], ["xcp", "el", "whole"], 2, lev,
                 ["top"], actual_filter=only(arr6, arr6))
    yield family("M2", ["M", "N"], MAT, 3, lev, SUB)
    yield family("MS", ["MS", "NS"], ["midx", "mel", "inc"], 2, lev,
                 ["top", "loop"], actual_filter=only(None, few + ("5",)))
    yield family("ST", ["T"], STRU, 3, lev, SUB)
    yield family("TS", ["TS"], ["tidx", "tf", "inc"], 2, lev, SUB,
                 actual_filter=only(None, few + ("5",)))
    yield family("NM", ["S"], ["get", "put", "inc", "cpy"], 2, lev, SUB,
                 namings=names, actual_filter=only(("k", "i", "g", "a(i)")))
    yield family("NM", ["SS"], ["get", "put", "inc", "cpy"], 2, lev,
                 ["top", "loop"], namings=names,
                 actual_filter=lambda kinds, acts: all(
                     a in ("k", "i", "g", "a(i)") for a in acts))
    yield family("NM", ["E", "A", "Z"], ["loop", "el"], 2, lev, SUB, namings=names,
                 actual_filter=only(("a", "b(1:n)", "q(:, k)")))
    yield family("NM", ["M", "N"], ["mloop", "mel"], 2, lev, SUB, namings=names)
    yield family("RT", ["S", "A", "SS"], ["inc", "set", "el", "loop", "cpy"], 2,
                 lev, SUB, rets=["R1", "R2", "R3"],
                 actual_filter=lambda kinds, acts: all(
                     a in ("k", "i", "a(i)", "a", "b(1:n)") for a in acts))
    yield family("FN", ["S"], ["inc", "get", "put"], 2, lev, FUN,
                 namings=["N0"] + names, rets=["R0", "R1"])
    yield family("FN", ["SS"], ["inc", "cpy"], 2, lev, FUN,
                 actual_filter=only(base, few + ("5",)))
    yield family("FN", ["E", "Z", "A", "L"], ["el", "loop", "sum", "whole"], 2,
                 lev, FUN, namings=["N0", "N3"], actual_filter=only(arr6))
    yield family("FN", ["M", "N", "T"], ["mel", "mloop", "tf", "td"], 2, lev, FUN)
    yield family("FN", ["AS", "TS"], ["idx", "rd", "tidx", "inc"], 2, lev,
                 ["fexpr", "floop"],
                 actual_filter=only(("a", "b(1:n)", "w"), few))


def corpus_keys(tier):
    """Deterministic list of program keys; the quick corpus is a prefix of
    the thorough one."""
    keys = []
    seen = set()
    gens = list(quick_families())
    if tier == "thorough":
        # The registered thorough tier is the quick corpus plus the complete
        # scalar-dummy families (the first four of thorough_families(), 8,981
        # programs): the only part of the designed thorough corpus that was
        # run to completion on the final tree.  tier "full" is the designed
        # 63,604-program corpus (never run in full; see notes/C07.md).
        gens += list(thorough_families())[:4]
    elif tier != "quick":
        gens += list(thorough_families())
    for gen in gens:
        for key in gen:
            if key not in seen:
                seen.add(key)
                keys.append(key)
    return keys
