"""Binds E1 to gfortran on the C12/C13 corpus (development aid, not part of the
check run):  cd /verif && PYTHONPATH=/verif:/repo/src PSYCLONE_CONFIG=/repo/config/psyclone.cfg \
    /venv/bin/python -m mc.gen.c12_gfcheck [max_programs]

Every 1- and 2-statement program of the full statement alphabet that is
admissible on all inputs is compiled (one file, one module per program) and run
on every input; k, t, u and every element of a, b, c, q, d after the call are
compared with E1's final store.  Any mismatch is a bug in E1 (or in the input
construction), never a finding about PSyclone.
"""
import itertools
import shutil
import subprocess
import sys

from mc.gen import c12_progs as G


def main(limit=None):
    from mc import runner
    from mc.fortsem import equiv, transcheck, interp as I
    progs = [(k,) for k in G.STATEMENTS] + \
        list(itertools.product(list(G.STATEMENTS), repeat=2))
    if limit:
        progs = progs[:limit]

    def admissible(keys):
        tree = transcheck.parse(G.source(keys))
        return all(equiv.run(tree, "s", G.make_args(inp))[0] == "ok"
                   for inp in G.INPUTS)

    total = len(progs)
    progs = [keys for keys in progs if admissible(keys)]
    src = [G.source(keys).replace("module c12m", f"module c12m_{idx}")
           for idx, keys in enumerate(progs)]
    main_src = ["program main"]
    main_src += [f"  use c12m_{idx}, only: s_{idx} => s" for idx in range(len(progs))]
    nin = len(G.INPUTS)
    main_src += [
        "  integer :: n, m, k, i, j, iv", "  real :: t, u",
        "  real :: a(0:4), b(0:4), c(0:4), q(0:4,0:4), d(0:4), e(0:4)",
        f"  integer :: ns({nin}), ks({nin}), avs({nin})", f"  real :: ts({nin})",
        "  ns = (/" + ",".join(str(i[0]) for i in G.INPUTS) + "/)",
        "  ks = (/" + ",".join(str(i[1]) for i in G.INPUTS) + "/)",
        "  ts = (/" + ",".join(str(float(i[2])) for i in G.INPUTS) + "/)",
        "  avs = (/" + ",".join(str(i[3]) for i in G.INPUTS) + "/)"]
    for idx in range(len(progs)):
        main_src += [
            f"  do iv = 1, {nin}",
            "    n = ns(iv); m = 4; k = ks(iv); t = ts(iv); u = -1.5",
            "    do i = 0, 4", "      if (avs(iv) == 0) then",
            "        a(i) = (2*i+1)/2.0", "      else", "        a(i) = (11-2*i)/2.0",
            "      end if", "      b(i) = 10 + 2*i", "      c(i) = (-4*i-1)/4.0",
            "      d(i) = -99.0", "      e(i) = (3*i+2)/2.0",
            "      do j = 0, 4", "        q(i,j) = (800 + 80*i + 8*j + 1)/8.0",
            "      end do", "    end do",
            f"    call s_{idx}(n, m, k, t, u, a, b, c, q, d, e)",
            "    write(*,'(I8,2ES24.15)') k, t, u",
            "    write(*,'(5ES24.15)') a", "    write(*,'(5ES24.15)') b",
            "    write(*,'(5ES24.15)') c", "    write(*,'(5ES24.15)') q",
            "    write(*,'(5ES24.15)') d", "  end do"]
    main_src.append("end program main")
    work = runner.scratch_dir("c12gf")
    try:
        with open(f"{work}/all.f90", "w", encoding="utf-8") as fout:
            fout.write("\n".join(src) + "\n" + "\n".join(main_src) + "\n")
        comp = subprocess.run(["gfortran", "-O0", "-o", "all.x", "all.f90"], cwd=work,
                              capture_output=True, text=True, check=False)
        if comp.returncode:
            print(comp.stderr[:3000])
            return 2
        out = subprocess.run(["./all.x"], cwd=work, capture_output=True, text=True,
                             check=False).stdout.split("\n")
    finally:
        shutil.rmtree(work, ignore_errors=True)
    pos = bad = compared = 0
    for keys in progs:
        tree = transcheck.parse(G.source(keys))
        for inp in G.INPUTS:
            words = []
            for line in out[pos:pos + 10]:
                words += line.split()
            pos += 10
            args = G.make_args(inp)
            if equiv.run(tree, "s", args)[0] != "ok":
                raise RuntimeError("admissibility changed")
            mine = [args[2].v, args[3].v, args[4].v] + \
                [cell.v for arr in args[5:10] for cell in arr.cells]
            theirs = [int(words[0])] + [float(w) for w in words[1:]]
            for one, two in zip(mine, theirs):
                if one is I.POISON:
                    continue
                compared += 1
                if abs(float(one) - two) > 1e-6 * max(1.0, abs(two)):
                    bad += 1
                    print("MISMATCH", keys, G.input_key(inp), float(one), two)
                    break
    print(f"programs compiled and run: {len(progs)} of {total} (rest inadmissible), "
          f"inputs each: {nin}, values compared: {compared}, mismatching runs: {bad}")
    return 1 if bad else 0


if __name__ == "__main__":
    sys.exit(main(int(sys.argv[1]) if len(sys.argv) > 1 else None))
