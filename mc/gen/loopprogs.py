"""E5: deterministic, size-ordered generator of small loop programs.

Every program is one subroutine

    subroutine s(n, m, k, t, u, a, b, c, q)      ! m = n + 1

with integer n,m (in), integer k, real t,u, real a,b,c(0:m), q(0:m,0:m) and
local integers i, j, l.  All dummy arguments are observable.
"""
import itertools

HEADER = """subroutine s(n, m, k, t, u, a, b, c, q, iv)
  integer, intent(in) :: n
  integer, intent(in) :: m
  integer, intent(inout) :: k
  real, intent(inout) :: t
  real, intent(inout) :: u
  real, intent(inout) :: a(0:m)
  real, intent(inout) :: b(0:m)
  real, intent(inout) :: c(0:m)
  real, intent(inout) :: q(0:m,0:m)
  integer, intent(in) :: iv(0:m)
  integer :: i
  integer :: j
  integer :: l
"""
FOOTER = "end subroutine s\n"

#: loop headers (name -> text after 'do VAR = ')
HEADERS = {
    "up": "1, n",
    "up2n": "2, n",
    "dn": "n, 1, -1",
    "s2": "1, n, 2",
    "dn2": "n, 1, -2",
    "s3": "1, n, 3",
    "upm": "0, m",
    "lit": "1, 4",
}


def off(var, delta):
    if delta == 0:
        return var
    return f"{var} + {delta}" if delta > 0 else f"{var} - {-delta}"


def stmts_1d(var, rich):
    """(key, text) statements for the body of a loop over `var`."""
    out = []
    deltas = (-1, 0, 1)
    # array <- array
    pairs = [("a", "a"), ("a", "b"), ("b", "a")]
    for lhs, rhs in pairs:
        for dl, dr in itertools.product(deltas, deltas):
            if not rich and lhs != rhs and (dl, dr) != (0, 0) and abs(dl) + abs(dr) > 1:
                continue
            out.append((f"{lhs}[{dl}]={rhs}[{dr}]+1",
                        f"{lhs}({off(var, dl)}) = {rhs}({off(var, dr)}) + 1.0"))
    # scalar temporaries
    out += [
        ("t=a", f"t = a({var}) * 2.0"),
        ("b=t", f"b({var}) = t"),
        ("t=t+a", f"t = t + a({var})"),
        ("t=2", "t = 2.0"),
        ("u=t", "u = t + 1.0"),
        ("c=u", f"c({var}) = u"),
        ("k=i-1", f"k = {var} - 1"),
        ("a[k]=b", f"a(k) = b({var})"),
        ("k=k+1", "k = k + 1"),
        ("b[k]=1", "b(k) = 1.0"),
        ("if(a>)b=0", f"if (a({var}) > 2.0) then\n  b({var}) = 0.0\nend if"),
        ("if(a>)t=1", f"if (a({var}) > 2.0) then\n  t = 1.0\nend if"),
        ("c=c+t", f"c({var}) = c({var}) + t"),
        ("a=max", f"a({var}) = max(b({var}), t)"),
    ]
    if rich:
        out += [
            ("t=u", "t = u"),
            ("u=a", f"u = a({off(var, 1)})"),
            ("c=n", f"c({var}) = n"),
            ("a[n-i]", f"a(n - {var} + 1) = b({var})"),
            ("k=2*i", f"k = 2 * {var}"),
        ]
    return out


def stmts_2d(iv, jv, rich):
    out = []
    deltas = (-1, 0, 1)
    for d1, d2 in itertools.product(deltas, deltas):
        out.append((f"q=q[{d1},{d2}]",
                    f"q({iv}, {jv}) = q({off(iv, d1)}, {off(jv, d2)}) + 1.0"))
    out += [
        ("q=a*b", f"q({iv}, {jv}) = a({iv}) * b({jv})"),
        ("qT", f"q({iv}, {jv}) = q({jv}, {iv}) + 1.0"),
        ("a=a+q", f"a({iv}) = a({iv}) + q({iv}, {jv})"),
        ("t=q", f"t = q({iv}, {jv})"),
        ("q=t", f"q({iv}, {jv}) = t"),
        ("b=q", f"b({jv}) = q({iv}, {jv})"),
        ("k=i+j", f"k = {iv} + {jv}"),
        ("c[k]=1", "c(k) = 1.0"),
    ]
    if rich:
        out += [
            ("q[i,i]", f"q({iv}, {iv}) = q({iv}, {jv}) + 1.0"),
            ("a[j]=a[i]", f"a({jv}) = a({iv}) + 1.0"),
        ]
    return out


def indent(text, pre="  "):
    return "".join(pre + line + "\n" for line in text.split("\n"))


def loop(var, header, body):
    return f"do {var} = {HEADERS[header]}\n{indent(body).rstrip()}\nend do"


def program(body):
    return HEADER + indent(body) + FOOTER


# ---------------------------------------------------------------------------
def corpus(tier):
    """Yields (key, source) smallest first.  Keys are stable."""
    rich = tier == "thorough"
    seen = set()

    def emit(key, body):
        if key in seen:
            return None
        seen.add(key)
        return (key, program(body))

    one_i = stmts_1d("i", rich)
    one_j = stmts_1d("j", rich)
    heads = ["up", "dn", "s2", "dn2", "s3", "up2n"] if rich else \
        ["up", "dn", "s2", "dn2"]

    # P3: single loop, 1 statement, every header
    for head in heads + ["lit"]:
        for skey, stext in one_i:
            res = emit(f"L1:{head}:{skey}", loop("i", head, stext))
            if res:
                yield res
    # P3: single loop, 2 statements
    pair_heads = ["up", "dn", "s2"] if rich else ["up"]
    sel = one_i if rich else [s for s in one_i if "[" not in s[0] or
                              s[0] in ("a[0]=a[-1]+1", "a[0]=b[0]+1",
                                       "a[1]=a[0]+1", "a[k]=b", "b[k]=1")]
    for head in pair_heads:
        for (k1, s1), (k2, s2) in itertools.product(sel, sel):
            if k1 == k2:
                continue
            res = emit(f"L2:{head}:{k1};{k2}", loop("i", head, s1 + "\n" + s2))
            if res:
                yield res
    # P4: statement before/after a loop using its scalars
    for skey, stext in one_i:
        for pre in ("t = 5.0", "k = 3"):
            res = emit(f"PRE:{pre}:{skey}", pre + "\n" + loop("i", "up", stext)
                       + "\nu = t + k")
            if res:
                yield res
    # P1: two adjacent loops (fusion candidates)
    fuse_heads = [("up", "up"), ("dn", "dn"), ("up", "dn"), ("s2", "s2"),
                  ("up", "up2n")] if rich else [("up", "up"), ("dn", "dn")]
    quick_fuse = ("a[0]=b[0]+1", "a[0]=a[-1]+1", "a[1]=b[0]+1", "a[-1]=b[0]+1",
                  "b[0]=a[0]+1", "b[0]=a[1]+1", "b[0]=a[-1]+1", "t=a", "b=t",
                  "t=t+a", "k=i-1", "a[k]=b", "c=u", "u=t", "t=2")
    fsel = [s for s in one_i if "if(" not in s[0] and (rich or s[0] in quick_fuse)]
    for h1, h2 in fuse_heads:
        for v2, second in (("i", one_i), ("j", one_j)):
            ssel = [s for s in second if "if(" not in s[0]
                    and (rich or s[0] in quick_fuse)]
            for (k1, s1), (k2, s2) in itertools.product(fsel, ssel):
                res = emit(f"F:{h1},{h2}:{v2}:{k1}|{k2}",
                           loop("i", h1, s1) + "\n" + loop(v2, h2, s2))
                if res:
                    yield res
    # P2: 2-deep nests
    two = stmts_2d("i", "j", rich)
    nest_heads = [("up", "up"), ("up", "dn"), ("dn", "up"), ("s2", "up"),
                  ("up", "s2")] if rich else [("up", "up"), ("up", "dn")]
    for h1, h2 in nest_heads:
        for skey, stext in two:
            res = emit(f"N1:{h1},{h2}:{skey}",
                       loop("j", h1, loop("i", h2, stext)))
            if res:
                yield res
    for (k1, s1), (k2, s2) in itertools.product(two, two):
        if k1 == k2 or (not rich and not (k1.startswith("q=q") or k2.startswith("q=q"))):
            continue
        res = emit(f"N2:up,up:{k1};{k2}",
                   loop("j", "up", loop("i", "up", s1 + "\n" + s2)))
        if res:
            yield res
    # imperfect nests: statement before / after the inner loop
    for skey, stext in two:
        for okey, otext in (("t=b[j]", "t = b(j)"), ("a[j]=0", "a(j) = 0.0"),
                            ("k=j", "k = j")):
            res = emit(f"NI:pre:{okey}:{skey}",
                       loop("j", "up", otext + "\n" + loop("i", "up", stext)))
            if res:
                yield res
            res = emit(f"NI:post:{okey}:{skey}",
                       loop("j", "up", loop("i", "up", stext) + "\n" + otext))
            if res:
                yield res
    # triangular / dependent bounds
    for skey, stext in two[:12]:
        body = f"do j = 1, n\n  do i = j, n\n{indent(stext, '    ').rstrip()}\n  end do\nend do"
        res = emit(f"TRI:{skey}", body)
        if res:
            yield res
    # loop bound expressions (HoistLoopBoundExprTrans) and bounds modified
    for skey, stext in one_i[:10]:
        for bkey, btext in (("n-1", "1, n - 1"), ("size", "1, size(a) - 2"),
                            ("k", "1, k"), ("mod", "1, mod(n, 3) + 1"),
                            ("ubound", "lbound(a, 1) + 1, ubound(a, 1) - 1")):
            body = f"do i = {btext}\n{indent(stext).rstrip()}\nend do"
            res = emit(f"B:{bkey}:{skey}", body)
            if res:
                yield res
    # bounds that depend on the OTHER loop's variable only through a subscript
    for skey, stext in two[:12]:
        for bkey, inner in (("1,iv(j)", "1, iv(j)"), ("iv(j),n", "iv(j), n"),
                            ("1,n,iv(j)+1", "1, n, iv(j) + 1")):
            body = (f"do j = 1, n\n  do i = {inner}\n"
                    f"{indent(stext, '    ').rstrip()}\n  end do\nend do")
            res = emit(f"TRX:{bkey}:{skey}", body)
            if res:
                yield res
        body = (f"do j = iv(i), n\n{indent(stext, '  ').rstrip()}\nend do")
        res = emit(f"TRY:{skey}", loop("i", "up", body))
        if res:
            yield res
    # conditional return folding
    for skey, stext in (("a1", "a(1) = 3.0"), ("t", "t = t + 1.0")):
        for ckey, ctext in (("n<2", "n < 2"), ("t>1", "t > 1.0"), ("k==1", "k == 1")):
            body = f"if ({ctext}) then\n  return\nend if\n{stext}\n" + \
                loop("i", "up", "b(i) = a(i)")
            res = emit(f"RET:{ckey}:{skey}", body.rstrip())
            if res:
                yield res
            body = f"k = k + 1\nif ({ctext}) then\n  return\nend if\n{stext}"
            res = emit(f"RET2:{ckey}:{skey}", body)
            if res:
                yield res
