"""E5: deterministic, size-ordered generator of complete free-form Fortran
programs for C01 (read + re-write preserves behaviour) and C03 (re-writing is
stable).

A *statement program* is

    module tmod            ! helper type / subroutines / functions (only those used)
    program tprog          ! nested DO loops over the enumerated inputs; every
                           ! case initialises all variables, runs the templates
                           ! and PRINTs every variable (the observable)

built from a sequence of *items*; an item is a leaf template or a container
template (DO / IF / SELECT CASE) with another template in its hole (nesting
depth 2).  Host ``m`` puts the templates into the main program (arrays with
literal / named-constant bounds), host ``s`` puts them into a module
subroutine ``twork`` whose 1-based arrays are assumed-shape dummies (so the
reader sees ArrayType.Extent and has to use LBOUND/SIZE) and whose other arrays
are explicit-shape dummies b(0:m), c(2:5), m3(0:2,2); host ``t`` is host ``s``
with assumed-shape dummies that have a lower bound: b(0:), c(2:), m3(0:,:).

Every template has a stable key ``family.variant``; a program key is
``<host>:<item>+<item>...`` with ``item = tmpl`` or ``tmpl[inner]``.

A *declaration program* (C03 only) is a module built from <= 3 declaration
features (see DECL_FEATURES) plus <= 2 statement snippets.
"""
import itertools
import re

# ---------------------------------------------------------------------------
# variables
# ---------------------------------------------------------------------------
#: name -> (declaration in the main program, declaration as dummy of twork on
#: host s, the same on host t)
VARS = {
    "i": ("integer :: i", "integer, intent(inout) :: i"),
    "j": ("integer :: j", "integer, intent(inout) :: j"),
    "k": ("integer :: k", "integer, intent(inout) :: k"),
    "io": ("integer :: io", "integer, intent(inout) :: io"),
    "x": ("real :: x", "real, intent(inout) :: x"),
    "y": ("real :: y", "real, intent(inout) :: y"),
    "l2": ("logical :: l2", "logical, intent(inout) :: l2"),
    "a": ("real :: a(3)", "real, intent(inout) :: a(:)"),
    "b": ("real :: b(0:m)", "real, intent(inout) :: b(0:m)",
          "real, intent(inout) :: b(0:)"),
    "c": ("real :: c(2:5)", "real, intent(inout) :: c(2:5)",
          "real, intent(inout) :: c(2:)"),
    "ia": ("integer :: ia(3)", "integer, intent(inout) :: ia(:)"),
    "la": ("logical :: la(3)", "logical, intent(inout) :: la(:)"),
    "m2": ("real :: m2(3,2)", "real, intent(inout) :: m2(:,:)"),
    "m3": ("real :: m3(0:2,2)", "real, intent(inout) :: m3(0:2,2)",
           "real, intent(inout) :: m3(0:,:)"),
    # declarations the reader does not support (kept verbatim) - on purpose
    "d": ("real :: d(0:m+1)", "real, intent(inout) :: d(0:)"),
    "e": ("real :: e(-1:1)", "real, intent(inout) :: e(-1:)"),
    "s": ("type(tt) :: s", "type(tt), intent(inout) :: s"),
}
#: arrays whose dummy declaration differs between host s and host t
LB_VARS = ("b", "c", "m3")
#: inputs: name -> (declaration, dummy declaration, domain as Fortran loop)
INPUTS = {
    "iv": ("integer :: iv", "integer, intent(in) :: iv", (0, 2)),
    "n": ("integer :: n", "integer, intent(in) :: n", (0, 3)),
    "isel": ("integer :: isel", "integer, intent(in) :: isel", (-1, 4)),
    "l": ("logical :: l", "logical, intent(in) :: l", (0, 1)),
    "lp": ("logical :: lp", "logical, intent(in) :: lp", (0, 1)),
    "lq": ("logical :: lq", "logical, intent(in) :: lq", (0, 1)),
    "ch": ("character(len=1) :: ch", "character(len=1), intent(in) :: ch", (1, 3)),
}
#: locals that are never initialised by the driver nor printed by it
LOCALS = {
    "w": "real, allocatable :: w(:)",
    "vv": "real :: vv(n)",          # host s only (automatic array)
    "widx1": "integer :: widx1",   # clashes with the reader's WHERE loop variable
}
#: variables whose value depends on the data variant iv
DATA_VARS = {"x", "y", "a", "b", "c", "ia", "la", "m2", "m3", "d", "e", "s"}

INIT = {
    "i": ["i = 0"], "j": ["j = 2"], "k": ["k = 1"], "io": ["io = 0"],
    "x": ["x = 1.5 + iv"], "y": ["y = 0.25 - 0.5 * iv"],
    "l2": ["l2 = .false."],
    "a": ["a(1) = 1.0 + iv", "a(2) = 2.0 * iv - 2.0", "a(3) = 3.0 - 3.0 * iv"],
    "b": ["b(0) = 0.5", "b(1) = iv - 1.5", "b(2) = 2.5 - iv"],
    "c": ["c(2) = 4.0", "c(3) = 4.0 * iv - 5.0", "c(4) = 6.0 - iv", "c(5) = 0.0 - 7.0"],
    "ia": ["ia(1) = 3 - iv", "ia(2) = iv - 1", "ia(3) = 2"],
    "la": ["la(1) = .true.", "la(2) = iv == 1", "la(3) = iv /= 2"],
    "m2": ["m2(1,1) = 1.0", "m2(2,1) = iv - 2.0", "m2(3,1) = 3.0",
           "m2(1,2) = 0.0 - 4.0", "m2(2,2) = 5.0 - 5.0 * iv", "m2(3,2) = 0.0 - 6.0"],
    "m3": ["m3(0,1) = 0.5", "m3(1,1) = 1.5 - iv", "m3(2,1) = 0.0 - 2.5",
           "m3(0,2) = 3.5", "m3(1,2) = 0.0 - 4.5", "m3(2,2) = iv - 0.5"],
    "d": ["d(0) = 8.0", "d(1) = 0.0 - 9.0", "d(2) = 10.0 - iv", "d(3) = 0.0 - 11.0"],
    "e": ["e(-1) = 12.0", "e(0) = 13.0 * iv - 13.0", "e(1) = 14.0"],
    "s": ["s%i = 7", "s%r = 0.75", "s%v(1) = iv - 1.0", "s%v(2) = 2.0",
          "s%v(3) = 0.0 - 3.0"],
}
PRINT = {name: f"print *, '{name}', {name}" for name in VARS}
PRINT["s"] = "print *, 's', s%i, s%r, s%v"

# ---------------------------------------------------------------------------
# helper program units of tmod (included when their name occurs in the text)
# ---------------------------------------------------------------------------
HELPERS = {
    "tt": ("type", """type :: tt
  integer :: i
  real :: r
  real :: v(3)
end type tt"""),
    "tcnt": ("var", "integer :: tcnt = 0"),
    "tsub": ("proc", """subroutine tsub(p, q, r, t)
  real, intent(inout) :: p
  real, intent(in) :: q
  integer, intent(inout), optional :: r
  real, intent(in), optional :: t
  p = p + q
  if (present(t)) p = p * t
  if (present(r)) r = r + 1
end subroutine tsub"""),
    "tfun": ("proc", """function tfun(i) result(r)
  integer, intent(in) :: i
  integer :: r
  r = 2 * i + 1
end function tfun"""),
    "tfr": ("proc", """function tfr(x)
  real, intent(in) :: x
  real :: tfr
  tfr = x * 0.5
end function tfr"""),
    "tfe": ("proc", """elemental function tfe(x) result(r)
  real, intent(in) :: x
  real :: r
  r = x * 2.0 - 1.0
end function tfe"""),
    "tnorm": ("proc", """function tnorm(v) result(r)
  real, intent(in) :: v(:)
  real :: r
  integer :: i
  r = 0.0
  do i = 1, size(v)
    r = r + v(i)
  end do
end function tnorm"""),
    "tarr": ("proc", """subroutine tarr(v, n)
  integer, intent(in) :: n
  real, intent(inout) :: v(n)
  integer :: i
  do i = 1, n
    v(i) = v(i) + i
  end do
end subroutine tarr"""),
    "tcount": ("proc", """function tcount() result(r)
  integer :: r
  tcnt = tcnt + 1
  r = tcnt
end function tcount"""),
}

# ---------------------------------------------------------------------------
# statement templates
# ---------------------------------------------------------------------------
# (key, flags, text).  flags: c = core (used in pairs of the quick tier),
# k = mini core (triples), p = probe (paired with every template, thorough), s = also generated with host s, S = host s only,
# text with {BODY} = container; {I} = loop variable of a container (i, or io when
# something is nested inside); {L} = unique label base; {N} = unique name suffix.
_T = []


def _t(key, flags, text):
    _T.append((key, flags, text.strip("\n")))


# ---- DO -------------------------------------------------------------------
_t("do.up", "ckp", "do {I} = 1, n\n  k = k + {I}\n{BODY}\nend do")
_t("do.lit", "", "do {I} = 1, 3\n  k = k + {I}\n{BODY}\nend do")
_t("do.step1", "", "do {I} = 1, n, 1\n  k = k * 2 + {I}\n{BODY}\nend do")
_t("do.dn", "c", "do {I} = n, 1, -1\n  k = k * 2 + {I}\n{BODY}\nend do")
_t("do.dnlit", "", "do {I} = 3, 1, -1\n  k = k * 2 + {I}\n{BODY}\nend do")
_t("do.step2", "", "do {I} = 0, n, 2\n  k = k * 2 + {I}\n{BODY}\nend do")
_t("do.stepm2", "", "do {I} = 3, 0, -2\n  k = k * 2 + {I}\n{BODY}\nend do")
_t("do.zero", "", "do {I} = 2, 1\n  k = k + 100\n{BODY}\nend do")
_t("do.zeroneg", "", "do {I} = 1, 2, -1\n  k = k + 100\n{BODY}\nend do")
_t("do.varstep", "", "j = 2\ndo {I} = 1, n, j\n  k = k * 2 + {I}\n{BODY}\nend do")
_t("do.negvarstep", "", "j = 0 - 1\ndo {I} = n, 0, j\n  k = k * 2 + {I}\n{BODY}\nend do")
_t("do.expr", "", "do {I} = n - 1, n + 1\n  k = k * 2 + {I}\n{BODY}\nend do")
_t("do.boundmod", "", "k = 2\ndo {I} = 1, k\n  k = k + 1\n{BODY}\nend do")
_t("do.while", "c", "{I} = 0\ndo while ({I} < n)\n  {I} = {I} + 1\n  k = k * 2 + {I}\n{BODY}\nend do")
_t("do.forever", "", "{I} = 0\ndo\n  {I} = {I} + 1\n  if ({I} > n) exit\n  k = k * 2 + {I}\n{BODY}\nend do")
_t("do.named", "", "lp{N}: do {I} = 1, n\n  k = k * 2 + {I}\n{BODY}\nend do lp{N}")
_t("do.namedexit", "", "lp{N}: do {I} = 1, 3\n  if ({I} > n) exit lp{N}\n  k = k * 2 + {I}\n{BODY}\nend do lp{N}")
_t("do.exit", "", "do {I} = 1, 3\n  if ({I} > n) exit\n  k = k * 2 + {I}\n{BODY}\nend do")
_t("do.cycle", "", "do {I} = 1, 3\n  if ({I} == n) cycle\n  k = k * 2 + {I}\n{BODY}\nend do")
_t("do.exitblock", "", "do {I} = 1, 3\n  if ({I} > n) then\n    k = k + 50\n    exit\n  end if\n  k = k * 2 + {I}\n{BODY}\nend do")
_t("do.label", "", "do {L}0 {I} = 1, n\n  k = k * 2 + {I}\n{BODY}\n{L}0 continue")
_t("do.nest2", "", "do j = 1, 2\n  do i = 1, n\n    k = k * 2 + i * j\n  end do\nend do")
_t("do.nesttri", "", "do j = 1, n\n  do i = j, n\n    k = k * 2 + i - j\n  end do\nend do")
_t("do.concurrent", "", "do concurrent (i = 1:3)\n  a(i) = a(i) * 2.0 + i\nend do")
_t("do.concurrent2", "", "do concurrent (i = 1:3, j = 1:2)\n  m2(i,j) = m2(i,j) + i * j\nend do")
_t("do.arr", "s", "do i = 1, n\n  a(i) = a(i) + b(i - 1)\nend do")
_t("do.arrdn", "", "do i = 3, 2, -1\n  a(i) = a(i - 1)\nend do")
_t("do.postval", "", "do i = 1, n\n  x = x + 1.0\nend do\nk = i\ndo j = 3, 1, -2\n  x = x + 1.0\nend do\nk = k * 10 + j")

# ---- IF -------------------------------------------------------------------
_t("if.block", "ck", "if (l) then\n  k = k + 1\n{BODY}\nend if")
_t("if.else", "", "if (isel > 1) then\n  k = k + 1\n{BODY}\nelse\n  k = k - 1\nend if")
_t("if.elseif", "c", "if (isel == 0) then\n  k = 10\n{BODY}\nelse if (isel == 1) then\n  k = 11\nelse if (isel < 0) then\n  k = 12\nelse\n  k = 13\nend if")
_t("if.elseifnoelse", "", "if (isel == 0) then\n  k = 10\nelse if (isel >= 3) then\n  k = 11\n{BODY}\nend if")
_t("if.inelse", "", "if (isel > 2) then\n  k = 10\nelse\n  k = 11\n{BODY}\nend if")
_t("if.stmt", "c", "if (l) k = k + 1")
_t("if.stmtcall", "", "if (l) call tsub(x, y)")
_t("if.stmtarr", "", "if (l) a(:) = 0.0")
_t("if.not", "", "if (.not. l) then\n  k = k + 1\n{BODY}\nend if")
_t("if.andor", "", "if (l .and. isel > 1 .or. n == 0) then\n  k = k + 1\nend if\nif (l .and. (isel > 1 .or. n == 0)) then\n  k = k + 10\nend if")
_t("if.eqv", "", "if (l .eqv. isel > 1) k = k + 1\nif (l .neqv. isel > 1) k = k + 10\nif (.not. l .eqv. isel > 1) k = k + 100")
_t("if.named", "", "chk{N}: if (l) then\n  k = k + 1\nelse chk{N}\n  k = k - 1\nend if chk{N}")
_t("if.nested", "", "if (l) then\n  if (isel > 1) then\n    k = 10\n  else\n    k = 11\n  end if\nelse\n  if (isel > 2) k = 12\nend if")
_t("if.oldops", "", "if (isel .lt. 1) k = k + 1\nif (isel .ge. 2 .and. isel .ne. 3) k = k + 10\nif (x .gt. y) k = k + 100\nif (isel .le. 0 .or. isel .eq. 4) k = k + 1000")
_t("if.empty", "", "if (l) then\nend if\nif (isel > 1) then\nelse\n  k = k + 1\nend if")

# ---- SELECT CASE ----------------------------------------------------------
_t("sel.single", "ckp", "select case (isel)\ncase (0)\n  k = 10\n{BODY}\ncase (1)\n  k = 11\ncase default\n  k = 12\nend select")
_t("sel.nodefault", "", "select case (isel)\ncase (0)\n  k = 10\n{BODY}\ncase (2)\n  k = 11\nend select")
_t("sel.list", "", "select case (isel)\ncase (0, 2, 4)\n  k = 10\n{BODY}\ncase (1)\n  k = 11\ncase default\n  k = 12\nend select")
_t("sel.range", "", "select case (isel)\ncase (1:3)\n  k = 10\n{BODY}\ncase default\n  k = 12\nend select")
_t("sel.lo", "", "select case (isel)\ncase (2:)\n  k = 10\n{BODY}\ncase default\n  k = 12\nend select")
_t("sel.hi", "", "select case (isel)\ncase (:0)\n  k = 10\n{BODY}\ncase default\n  k = 12\nend select")
_t("sel.mix", "c", "select case (isel)\ncase (:-1, 1, 3:)\n  k = 10\n{BODY}\ncase (0)\n  k = 11\ncase default\n  k = 12\nend select")
_t("sel.mix2", "", "select case (isel)\ncase (0:1, 3)\n  k = 10\ncase (2, 4:)\n  k = 11\n{BODY}\nend select")
_t("sel.deffirst", "c", "select case (isel)\ncase default\n  k = 12\n{BODY}\ncase (0)\n  k = 10\ncase (1:2)\n  k = 11\nend select")
_t("sel.defmid", "", "select case (isel)\ncase (0)\n  k = 10\ncase default\n  k = 12\n{BODY}\ncase (1:2)\n  k = 11\nend select")
_t("sel.defonly", "", "select case (isel)\ncase default\n  k = 12\n{BODY}\nend select")
_t("sel.empty", "", "select case (isel)\ncase (0)\ncase (1)\n  k = 11\ncase default\nend select")
_t("sel.expr", "", "select case (isel + 1)\ncase (0)\n  k = 10\ncase (1:2)\n  k = 11\n{BODY}\ncase default\n  k = 12\nend select")
_t("sel.mod", "", "select case (mod(isel + 3, 3))\ncase (0)\n  k = 10\ncase (1)\n  k = 11\ncase default\n  k = 12\nend select")
_t("sel.param", "", "select case (isel)\ncase (m)\n  k = 10\ncase (m + 1:)\n  k = 11\ncase default\n  k = 12\nend select")
_t("sel.modsel", "", "k = isel\nselect case (k)\ncase (0)\n  k = 1\ncase (1)\n  k = 5\ncase (2:)\n  k = 0\ncase default\n  k = 2\nend select")
_t("sel.sidefx", "", "select case (tcount())\ncase (2)\n  k = 10\ncase (1)\n  k = 11\ncase default\n  k = 12\nend select\nk = k * 10 + tcount()")
_t("sel.named", "", "sc{N}: select case (isel)\ncase (0) sc{N}\n  k = 10\ncase default sc{N}\n  k = 12\nend select sc{N}")
_t("sel.log", "c", "select case (l)\ncase (.true.)\n  k = 10\n{BODY}\ncase (.false.)\n  k = 11\nend select")
_t("sel.logdef", "", "select case (l)\ncase (.false.)\n  k = 10\ncase default\n  k = 11\n{BODY}\nend select")
_t("sel.logexpr", "", "select case (isel > 1)\ncase (.true.)\n  k = 10\ncase default\n  k = 11\nend select")
_t("sel.chr", "c", "select case (ch)\ncase ('a')\n  k = 10\n{BODY}\ncase ('b')\n  k = 11\ncase default\n  k = 12\nend select")
_t("sel.chrlist", "", "select case (ch)\ncase ('a', 'c')\n  k = 10\ncase default\n  k = 12\n{BODY}\nend select")
_t("sel.chrrange", "", "select case (ch)\ncase ('b':)\n  k = 10\ncase default\n  k = 12\nend select\nselect case (ch)\ncase ('a':'b')\n  k = k + 100\ncase ('c')\n  k = k + 200\nend select")
_t("sel.nested", "", "select case (isel)\ncase (0:2)\n  select case (n)\n  case (1)\n    k = 10\n  case default\n    k = 11\n  end select\ncase default\n  k = 12\nend select")
_t("sel.real", "", "select case (int(x))\ncase (1)\n  k = 10\ncase (2:3)\n  k = 11\ncase default\n  k = 12\nend select")

# ---- WHERE ----------------------------------------------------------------
_t("where.stmt", "cksp", "where (a(:) > 0.0) a(:) = 0.0")
_t("where.stmtlb", "cs", "where (a(:) > 0.0) b(:) = a(:)")
_t("where.stmtlb2", "s", "where (b(:) > 0.0) a(:) = b(:) * 2.0")
_t("where.cons", "s", "where (a(:) > 0.0)\n  a(:) = a(:) * 2.0\nend where")
_t("where.cons2", "s", "where (a(:) > 0.0)\n  b(:) = a(:)\n  a(:) = b(:) - 1.0\nend where")
_t("where.else", "cs", "where (a(:) > 0.0)\n  a(:) = a(:) * 2.0\nelsewhere\n  a(:) = b(:)\nend where")
_t("where.melse", "s", "where (a(:) > 1.0)\n  b(:) = 1.0\nelsewhere (a(:) < 0.0)\n  b(:) = 2.0\nend where")
_t("where.melse2", "s", "where (a(:) > 1.0)\n  b(:) = 1.0\nelsewhere (a(:) < 0.0)\n  b(:) = 2.0\nelsewhere\n  b(:) = a(:)\nend where")
_t("where.melse3", "s", "where (a(:) > 2.0)\n  b(:) = 1.0\nelsewhere (a(:) > 1.0)\n  b(:) = 2.0\nelsewhere (b(:) > 0.0)\n  b(:) = 3.0\nelsewhere\n  b(:) = 4.0\nend where")
_t("where.modmask", "cs", "where (a(:) > 0.0)\n  a(:) = 0.0 - 1.0\n  b(:) = a(:)\nelsewhere\n  a(:) = 5.0\n  b(:) = a(:) + 1.0\nend where")
_t("where.modmask2", "s", "where (a(:) > 1.0)\n  a(:) = 0.0 - 1.0\nelsewhere (a(:) < 0.0)\n  a(:) = 7.0\nelsewhere\n  a(:) = a(:) + 0.5\nend where")
_t("where.section", "s", "where (c(2:4) > 0.0) a(:) = c(2:4)")
_t("where.section2", "s", "where (a(1:2) > 0.0) b(0:1) = a(2:3)")
_t("where.section3", "s", "where (a(:) > 0.0) a(:) = c(3:5)")
_t("where.sectionopen", "s", "where (a(2:) > 0.0) a(2:) = b(:1)")
_t("where.rev", "s", "where (a(:) > 0.0) a(:) = a(3:1:-1)")
_t("where.elem", "s", "where (a(:) > 0.0) a(:) = a(:) + a(1)")
_t("where.elemmask", "s", "where (a(:) >= a(1)) a(:) = a(:) - 4.0")
_t("where.elemlast", "s", "where (b(:) > 0.0) b(:) = b(:) + a(3)")
_t("where.elemmelse", "s", "where (a(:) > 1.0)\n  a(:) = 0.0\nelsewhere (a(:) < a(1))\n  a(:) = 9.0\nend where")
_t("where.sumbody", "s", "where (a(:) > 0.0) a(:) = a(:) - sum(a(:))")
_t("where.summask", "s", "where (a(:) * 4.0 > sum(a(:))) a(:) = 0.0")
_t("where.maxval", "s", "where (a(:) < maxval(a(:)))\n  a(:) = 0.0\nend where")
_t("where.sumbare", "s", "where (a(:) > 0.0) a(:) = a(:) - sum(a)")
_t("where.sumother", "s", "where (a(:) > 0.0) a(:) = sum(b(:))")
_t("where.sumdim", "s", "where (a(:) > 0.0) a(:) = sum(m2(:,:), dim=2)")
_t("where.userred", "s", "where (a(:) > 0.0) a(:) = tnorm(a(:))")
_t("where.size", "s", "where (a(:) > 0.0) a(:) = size(a(:))")
_t("where.barerhs", "s", "where (a(:) > 0.0) a(:) = b")
_t("where.baremask", "s", "where (a > 0.0) a = 0.0")
_t("where.barelhs", "s", "where (a(:) > 0.0) b = 1.0")
_t("where.baremixed", "s", "where (a(:) > 0.0)\n  a(:) = b(:) * a\nend where")
_t("where.logical", "s", "where (la(:)) a(:) = 0.0\nwhere (.not. la(:)) b(:) = 0.0")
_t("where.logmod", "s", "where (la(:))\n  la(:) = a(:) > 0.0\nelsewhere\n  la(:) = .true.\nend where")
_t("where.intr", "s", "where (abs(a(:)) > 1.5) a(:) = sign(1.5, a(:))")
_t("where.minmax", "s", "where (max(a(:), b(:)) > 1.0) a(:) = min(a(:), b(:), 0.5)")
_t("where.int", "s", "where (ia(:) > 0) ia(:) = ia(:) * 2\nwhere (mod(ia(:), 2) == 0) a(:) = ia(:)")
_t("where.scalar", "s", "where (a(:) > x) a(:) = x + y")
_t("where.fun", "s", "where (a(:) > 0.0) a(:) = tfr(x) + tfe(a(:))")
_t("where.andor", "s", "where (a(:) > 0.0 .and. b(:) > 0.0 .or. la(:)) a(:) = b(:)")
_t("where.2d", "cs", "where (m2(:,:) > 0.0) m2(:,:) = 0.0")
_t("where.2dlb", "s", "where (m3(:,:) > 0.0) m2(:,:) = m3(:,:) * 2.0")
_t("where.2dlb2", "s", "where (m2(:,:) > 0.0)\n  m3(:,:) = m2(:,:)\nelsewhere\n  m3(:,:) = 0.0\nend where")
_t("where.2dcol", "s", "where (m2(:,1) > 0.0) m2(:,2) = a(:)")
_t("where.2dcol2", "s", "where (a(:) > 0.0) a(:) = m3(:,2)")
_t("where.2drow", "s", "where (m2(2,:) > 0.0) m2(1,:) = m2(3,:)")
_t("where.2delem", "s", "where (m2(:,:) > 0.0) m2(:,:) = m2(:,:) + m2(1,1)")
_t("where.2dsum", "s", "where (m2(:,:) > 0.0) m2(:,:) = maxval(m2(:,:))")
_t("where.nested", "s", "where (a(:) > 0.0)\n  where (b(:) > 0.0)\n    a(:) = b(:)\n  end where\nend where")
_t("where.nested2", "s", "where (a(:) > 0.0)\n  a(:) = 1.0\n  where (b(:) > 0.0) b(:) = a(:)\nelsewhere\n  b(:) = 9.0\nend where")
_t("where.named", "s", "wh{N}: where (a(:) > 0.0)\n  a(:) = 1.0\nelsewhere wh{N}\n  a(:) = 2.0\nend where wh{N}")
_t("where.unsup", "", "where (e(:) > 0.0) e(:) = 0.0\nwhere (d(:) < 0.0)\n  d(:) = 1.0\nend where")
_t("where.unsupmix", "", "where (a(:) > 0.0) a(:) = e(:)")
_t("where.unsupmask", "", "where (e(:) > 0.0) a(:) = 0.0")
_t("where.struct", "", "where (s%v(:) > 0.0) s%v(:) = 0.0")
_t("where.struct2", "", "where (s%v(:) > 0.0)\n  a(:) = s%v(:)\nelsewhere\n  s%v(:) = a(:) + s%r\nend where")
_t("where.widx", "", "widx1 = 5\nwhere (a(:) > 0.0) a(:) = 0.0\nk = widx1")
_t("where.vsize", "S", "do i = 1, n\n  vv(i) = i - 1.5\nend do\nwhere (vv(:) > 0.0) vv(:) = 0.0\nwhere (vv(:) < 0.0)\n  vv(:) = vv(:) * 2.0\nelsewhere\n  vv(:) = 1.0\nend where\nx = sum(vv(:))")
_t("where.two", "s", "where (a(:) > 0.0) a(:) = 0.0\nwhere (b(:) > 0.0) b(:) = 0.0\nwhere (m2(:,:) > 0.0) m2(:,:) = 1.0")

# ---- array assignments ----------------------------------------------------
_t("arr.scalar", "s", "a = 0.5\nb(:) = x")
_t("arr.bare", "cs", "a = b\nb = a * 2.0 + b")
_t("arr.full", "ks", "a(:) = b(:) + a(:)")
_t("arr.sec", "cs", "a(1:2) = b(1:2)")
_t("arr.overlap", "s", "a(2:3) = a(1:2)")
_t("arr.overlap2", "s", "a(1:2) = a(2:3) + a(1:2)")
_t("arr.seclb", "s", "c(2:4) = a(:)\na(:) = c(3:5)")
_t("arr.stride", "s", "a(1:3:2) = 0.0\nb(0:2:2) = a(1:3:2)")
_t("arr.rev", "s", "a(3:1:-1) = b(:)\nb(:) = a(3:1:-1)")
_t("arr.open", "s", "a(:2) = 1.0\na(2:) = b(:1)")
_t("arr.var", "s", "a(1:n) = b(0:n - 1)")
_t("arr.zero", "s", "a(2:1) = b(1:0)")
_t("arr.2dcol", "s", "m2(:,1) = a(:)\na(:) = m2(:,2)")
_t("arr.2drow", "s", "m2(2,:) = 1.0\nm2(1,:) = m2(3,:)")
_t("arr.2dfull", "s", "m2 = 0.0\nm2(:,:) = m3(:,:)")
_t("arr.2dbare", "s", "m2 = m3 + m2")
_t("arr.2dsec", "s", "m2(1:2,1:2) = m3(0:1,:)")
_t("arr.cons", "", "a = (/ 1.0, 2.0, 3.5 /)")
_t("arr.cons2", "", "a = [1.0, x, y]\nia = [3, 2, 1]")
_t("arr.impdo", "", "ia = (/ (i * 2, i = 1, 3) /)")
_t("arr.vecsub", "", "ia = (/ 3, 1, 2 /)\nb(:) = a(ia)\na(ia(1:2)) = 0.0")
_t("arr.elemfun", "s", "a(:) = tfe(a(:))\nb = tfe(a)")
_t("arr.expr", "s", "a(:) = (a(:) - b(:)) * 2.0 - (b(:) - 1.0)")
_t("arr.int", "s", "ia(:) = ia(:) / 2 * 2\na(:) = ia(:)")
_t("arr.logical", "s", "la(:) = a(:) > 0.0 .and. .not. la(:)")
_t("arr.unsup", "", "e(:) = a(:)\nd(0:2) = e(:)\na = e")
_t("arr.struct", "", "s%v(:) = a(:)\na(1:2) = s%v(2:3)\ns%r = s%v(1) + s%i")
_t("arr.vsize", "S", "vv(:) = 1.5\nvv(1:n) = vv(1:n) * 2.0\nx = sum(vv)\nk = size(vv)")

# ---- intrinsics -----------------------------------------------------------
_t("int.min", "ck", "k = min(k, n, isel)\nj = max(isel, 0)")
_t("int.minreal", "", "x = max(x, y, 0.5)\ny = min(x, y)")
_t("int.minnamed", "", "k = max(a1=isel, a2=n)\nj = min(a2=isel, a1=n, a3=2)")
_t("int.minarr", "s", "a(:) = max(a(:), b(:))\nb = min(a, 0.5)")
_t("int.sum", "cs", "x = sum(a)\ny = sum(b(:))")
_t("int.sumsec", "s", "x = sum(a(1:2))\ny = sum(c(3:))")
_t("int.sumdim", "s", "a(:) = sum(m2, dim=2)\nb(0:1) = sum(m2, dim=1)")
_t("int.sumdimpos", "s", "a(:) = sum(m2, 2)\nx = sum(a, 1)")
_t("int.summask", "s", "x = sum(a, mask=a > 0.0)\ny = sum(a, mask=la)")
_t("int.summaskpos", "s", "x = sum(a, 1, a > 0.0)")
_t("int.sumnamed", "s", "x = sum(array=a)\ny = sum(mask=la, array=a)")
_t("int.sumdimmask", "s", "a(:) = sum(m2, dim=2, mask=m2 > 0.0)\nb(0:1) = sum(mask=m2 < 0.0, dim=1, array=m2)")
_t("int.sumint", "s", "k = sum(ia)\nj = sum(ia, mask=ia > 0)")
_t("int.sumexpr", "s", "x = sum(a(:) * b(:))\ny = sum(a - b)")
_t("int.maxval", "s", "x = maxval(a)\ny = minval(b(:))\nk = maxval(ia)")
_t("int.maxvalmask", "s", "x = maxval(a, mask=la)\ny = minval(a, dim=1)\nk = minval(ia, 1, ia > 0)")
_t("int.maxvaldim", "s", "a(:) = maxval(m2, dim=2)\nb(0:1) = minval(m3, 1)")
_t("int.product", "s", "k = product(ia)\nx = product(a, mask=a > 0.0)")
_t("int.size", "cs", "k = size(a)\nj = size(b, 1)\ni = size(m2, dim=2)")
_t("int.size2", "s", "k = size(m2)\nj = size(c(3:4))\ni = size(m3, 1) * 10 + size(m3, 2)")
_t("int.lbound", "s", "k = lbound(b, 1)\nj = ubound(c, dim=1)\ni = lbound(a, 1)")
_t("int.lbound2", "s", "k = lbound(m3, 1) * 10 + lbound(m3, 2)\nj = ubound(m3, dim=1) * 10 + ubound(m2, 2)")
_t("int.lboundarr", "s", "ia(1:2) = ubound(m3)\nk = sum(lbound(m3))")
_t("int.lboundsec", "s", "k = lbound(c(3:4), 1)\nj = ubound(b(:), 1)")
_t("int.boundunsup", "", "k = lbound(e, 1)\nj = ubound(d, 1)\ni = size(e)")
_t("int.abs", "", "x = abs(y) + abs(x)\nk = abs(isel)\ny = sign(x, y)")
_t("int.mod", "", "k = mod(isel, 3)\nj = modulo(isel, 3)\ni = mod(0 - 7, 3) * 10 + modulo(0 - 7, 3)")
_t("int.conv", "", "k = int(x)\nj = nint(y * 2.0)\nx = real(isel)\ni = floor(y) * 10 + ceiling(y)")
_t("int.sqrt", "", "x = sqrt(4.0) + sqrt(x * x)")
_t("int.merge", "s", "x = merge(x, y, l)\na(:) = merge(a(:), b(:), la(:))\nk = merge(1, 2, isel > 1)")
_t("int.dot", "s", "x = dot_product(a, b)\ny = dot_product(a(1:2), b(1:2))")
_t("int.matmul", "s", "b(0:1) = matmul(a, m2)\na(:) = matmul(m2, b(0:1))")
_t("int.anyall", "s", "l2 = any(a > 0.0)\nif (all(la)) k = k + 1\nj = count(la)")
_t("int.anyalldim", "s", "la(:) = any(m2 > 0.0, dim=2)\nk = count(m2 > 0.0)")
_t("int.maxloc", "s", "k = maxloc(a, dim=1)\nia(1:1) = minloc(a)")
_t("int.transpose", "", "m3(0:1,:) = transpose(m2(1:2,1:2))")
_t("int.spread", "", "m2(:,:) = spread(a, 2, 2)\nm2 = reshape((/ 1.0, 2.0, 3.0, 4.0, 5.0, 6.0 /), (/ 3, 2 /))")
_t("int.huge", "", "k = min(huge(k), isel)\nl2 = tiny(x) > 0.0\nj = kind(x) * 10 + kind(k)")
_t("int.char", "", "k = ichar(ch)\nl2 = lge(ch, 'b')\nj = len(ch) * 10 + index('abc', ch)")
_t("int.bits", "", "k = iand(isel + 8, 6)\nj = ior(n, 4)\ni = ishft(n, 2)")
_t("int.vsize", "S", "vv(:) = 0.5\nk = size(vv)\nj = ubound(vv, 1)\ni = lbound(vv, dim=1)")

# ---- scalar expressions ---------------------------------------------------
_t("expr.sub", "c", "x = x - (y - 1.0)\nk = isel - (n - k)")
_t("expr.subl", "", "x = (x - y) - 1.0\nk = isel - n - k")
_t("expr.mul", "", "k = (isel + n) * k\nj = isel + n * k")
_t("expr.div", "", "k = isel / 2 * 2\nj = isel / (2 * 2)\ni = isel * 2 / 4")
_t("expr.divr", "", "k = (isel / 2) * 2\nj = 2 * (isel / 2)\ni = 8 / (isel * isel + 1)")
_t("expr.neg", "", "x = -(x + y)\nk = -isel + n\nj = -(isel * 2)")
_t("expr.negmul", "", "k = -isel * 2\nj = (-isel) * 2\nx = -x * y")
_t("expr.negsub", "", "k = n - (-isel)\nj = n + (-isel)\nx = y * (-x)")
_t("expr.pow", "", "x = x ** 2\nk = 2 ** n\nj = isel ** 2")
_t("expr.powneg", "", "k = -isel ** 2\nj = (-isel) ** 2\nx = 2.0 ** (-1)")
_t("expr.powr", "", "k = 2 ** (n ** 2)\nj = 2 ** n ** 2\nx = (x * y) ** 2")
_t("expr.powmul", "", "k = 2 * 3 ** n\nj = (2 * 3) ** n\ni = 2 ** n * 3")
_t("expr.plus", "", "k = +isel\nj = n + (+isel)")
_t("expr.logic", "c", "l2 = l .and. .not. (isel > 1 .or. n == 0)\nif (l2) k = k + 1")
_t("expr.logic2", "", "l2 = (l .eqv. isel > 1) .neqv. (n > 1)\nif (l2) k = k + 1\nl2 = l .or. isel > 1 .and. n > 1")
_t("expr.logic3", "", "l2 = .not. l .and. isel > 1\nif (l2) k = k + 1\nl2 = .not. (l .and. isel > 1)")
_t("expr.cmp", "", "l2 = x > y .and. isel /= n\nif (isel <= n) k = k + 1\nif (isel >= n .eqv. l2) k = k + 10\nif (x == y) k = k + 100")
_t("expr.lit", "", "x = 1.5e0 + 2.5e-1\ny = 0.25d0 * 4\nk = 1000000")
_t("expr.litkind", "", "x = 1.5_4\nk = 7_4\ny = real(2.5_8)")
_t("expr.mixed", "", "x = isel + 0.5\ny = isel / 2 + x / 2\nk = isel * x")
_t("expr.chr", "", "if (ch == 'a') k = k + 1\nif (ch /= 'b' .and. ch < 'c') k = k + 10\nl2 = ch >= 'b'")
_t("expr.paren", "", "x = (x)\ny = ((x + y))\nk = (isel)")
_t("expr.arrelem", "s", "x = a(1) + b(0) * c(2)\na(2) = a(3) - (a(1) - b(2))\nia(ia(3)) = 9")
_t("expr.struct", "", "s%r = s%r + x\ns%i = s%i + isel\nx = s%v(2) * s%r")

# ---- brackets: the reader drops them, the writer must put them back ---------
# logical operators, three logical inputs over their 8 truth assignments
_t("lgx.oreqv", "", "k = 0\nif (l .or. (lp .eqv. lq)) k = k + 1\nif ((l .or. lp) .eqv. lq) k = k + 10\nif (l .or. lp .eqv. lq) k = k + 100\nif ((l .neqv. lp) .or. lq) k = k + 1000\nif (l .neqv. (lp .or. lq)) k = k + 10000\nif (l .neqv. lp .or. lq) k = k + 100000")
_t("lgx.eqvor", "", "k = 0\nif ((l .eqv. lp) .or. lq) k = k + 1\nif (l .eqv. (lp .or. lq)) k = k + 10\nif (l .eqv. lp .or. lq) k = k + 100\nif (l .or. (lp .neqv. lq)) k = k + 1000\nif ((l .or. lp) .neqv. lq) k = k + 10000\nif (l .or. lp .neqv. lq) k = k + 100000")
_t("lgx.andor", "", "k = 0\nif ((l .and. lp) .or. lq) k = k + 1\nif (l .and. (lp .or. lq)) k = k + 10\nif (l .and. lp .or. lq) k = k + 100\nif (l .or. (lp .and. lq)) k = k + 1000\nif ((l .or. lp) .and. lq) k = k + 10000\nif (l .or. lp .and. lq) k = k + 100000")
_t("lgx.andeqv", "", "k = 0\nif (l .and. (lp .eqv. lq)) k = k + 1\nif ((l .and. lp) .eqv. lq) k = k + 10\nif (l .and. lp .eqv. lq) k = k + 100\nif ((l .neqv. lp) .and. lq) k = k + 1000\nif (l .neqv. (lp .and. lq)) k = k + 10000\nif (l .neqv. lp .and. lq) k = k + 100000")
_t("lgx.not", "", "k = 0\nif (.not. (l .and. lp)) k = k + 1\nif (.not. l .and. lp) k = k + 10\nif (.not. (l .or. lp) .and. lq) k = k + 100\nif (.not. (l .eqv. lp)) k = k + 1000\nif (.not. l .eqv. lp) k = k + 10000\nif (l .and. .not. (lp .or. lq)) k = k + 100000\nif (l .or. .not. lp .and. lq) k = k + 1000000")
_t("lgx.not2", "", "k = 0\nif (.not. (l .neqv. (lp .or. lq))) k = k + 1\nif ((.not. l) .neqv. lp .or. lq) k = k + 10\nif (.not. (.not. l .or. lp)) k = k + 100\nif (l .eqv. .not. (lp .and. lq)) k = k + 1000\nif (.not. (l .or. (lp .eqv. lq))) k = k + 10000")
_t("lgx.assoc", "", "k = 0\nif ((l .eqv. lp) .eqv. lq) k = k + 1\nif (l .eqv. (lp .eqv. lq)) k = k + 10\nif ((l .neqv. lp) .eqv. lq) k = k + 100\nif (l .neqv. (lp .eqv. lq)) k = k + 1000\nif (l .or. (lp .or. lq)) k = k + 10000\nif (l .and. (lp .and. lq)) k = k + 100000")
_t("lgx.three", "", "k = 0\nif (l .or. (lp .eqv. lq) .and. l) k = k + 1\nif ((l .or. (lp .eqv. lq)) .and. lp) k = k + 10\nif (l .eqv. (lp .or. (lq .neqv. l))) k = k + 100\nif ((l .eqv. lp) .or. (lq .neqv. l)) k = k + 1000\nif (l .and. (lp .or. lq) .eqv. (l .or. lp) .and. lq) k = k + 10000")
_t("lgx.assign", "s", "l2 = l .or. (lp .eqv. lq)\nla(1) = (l .neqv. lp) .or. lq\nla(2) = l .and. (lp .or. lq)\nla(3) = .not. (l .or. lp) .eqv. lq\nla(:) = la(:) .or. (lp .neqv. lq)")
_t("lgx.rel", "", "k = 0\nif (isel > 1 .or. (n == 0 .eqv. lp)) k = k + 1\nif ((isel > 1 .or. n == 0) .eqv. lp) k = k + 10\nif (isel > 1 .and. (n < 2 .or. lp)) k = k + 100\nif (.not. (isel > 1 .and. n < 2)) k = k + 1000\nif ((isel > n) .eqv. (lp .or. n == 3)) k = k + 10000\nif (isel > n .neqv. lp .or. n == 3) k = k + 100000")
_t("lgx.relarith", "", "k = 0\nif (isel - (n - 1) > 1 .or. (lp .eqv. isel * 2 < n + 3)) k = k + 1\nif ((isel + n) * 2 >= 6 .eqv. (lp .or. isel / 2 == 1)) k = k + 10\nl2 = (isel - n) - 1 <= 0 .neqv. (lp .and. isel /= n)")
# arithmetic: brackets that matter
_t("arx.sub", "", "k = (isel - n) - 2\nj = isel - (n - 2)\ni = isel - n - 2\nx = (x - y) - 0.5\ny = x - (y - 0.5)")
_t("arx.addsub", "", "k = isel - (n + 2)\nj = isel - (n - 2) + (isel - (2 - n))\ni = (isel + n) - (isel - n)")
_t("arx.div", "", "k = 24 / (n + 1) / 2\nj = 24 / ((n + 1) * 2)\ni = 24 / (n + 1) * 2\nx = x / (2.0 * 4.0)\ny = x / 2.0 * 4.0")
_t("arx.divdiv", "", "k = 24 / (6 / (n + 1))\nj = (24 / 6) / (n + 1)\ni = isel * ((n + 1) / 2)\nx = x / (4.0 / 2.0)\ny = y / 4.0 / 2.0")
_t("arx.muldiv", "", "k = isel * (n + 1) / 2\nj = (isel * 7) / (n + 1) * 2\ni = isel * (7 / (n + 1)) * 2")
_t("arx.pow", "", "k = (2 ** n) ** 2\nj = 2 ** (n ** 2)\ni = 2 ** n ** 2")
_t("arx.powsmall", "", "k = (isel ** 2) ** n\nj = isel ** (2 ** n)\ni = (isel ** n) * 2 - isel ** (n * 2)")
_t("arx.powneg", "", "k = (-2) ** n\nj = -2 ** n\ni = -(2 ** n)\nx = (-x) ** 2 - x ** 2")
_t("arx.powmul", "", "k = 2 * 3 ** n\nj = (2 * 3) ** n\ni = 2 ** (n + 1) - (2 ** n + 1)\nx = (x + y) ** 2 / 4.0")
_t("arx.neg", "", "k = -(isel + n)\nj = -isel + n\ni = isel * (-n)\nx = x * (-y)\ny = -(x - y)")
_t("arx.neg2", "", "k = isel - (-n)\nj = -(-isel)\ni = isel / (-2)\nx = -(x * y) - (-y)")
_t("arx.negmul", "", "k = -(isel * n) + (-isel) * n\nj = (-isel) * (-n)\ni = -isel * n\nx = (-x) * y - x")
_t("arx.mixed", "", "k = isel - (n - 2) * 3\nj = (isel - n) * (n - 2)\ni = (isel - (n - 2)) * 3\nx = (x - y) * (x + y) - (x * x - y * y)")
# logical SELECT CASE with a list of values
_t("sel.loglist", "", "select case (l)\ncase (.true., .false.)\n  k = 10\n{BODY}\nend select")
_t("sel.loglist2", "", "select case (lp .eqv. lq)\ncase (.false., .true.)\n  k = 10\ncase default\n  k = 11\nend select\nselect case (l .or. lp)\ncase (.true.)\n  k = k + 100\ncase (.false.)\n  k = k + 200\nend select")
_t("sel.loglistexpr", "", "select case (l .neqv. lp)\ncase (.true., .false.)\n  k = 10\nend select\nselect case (isel > 1)\ncase (.false., .true.)\n  k = k + 100\nend select")

# ---- calls ----------------------------------------------------------------
_t("call.pos", "ckp", "call tsub(x, y)")
_t("call.named", "", "call tsub(x, q=y)")
_t("call.reorder", "c", "call tsub(q=y, p=x)")
_t("call.opt", "", "call tsub(x, y, k)\ncall tsub(x, y, t=2.0)")
_t("call.optreorder", "", "call tsub(t=2.0, r=k, q=1.0, p=x)")
_t("call.lit", "", "call tsub(x, 0.5)\ncall tsub(x, x + y)\ncall tsub(y, (x))")
_t("call.fun", "c", "k = tfun(isel)\nj = tfun(tfun(n))")
_t("call.funnamed", "", "k = tfun(i=isel)")
_t("call.funexpr", "", "k = tfun(isel) * 2 - tfun(n + 1)\nx = tfr(x) + tfr(x=1.0)")
_t("call.funif", "", "if (tfun(isel) > 3) k = k + 1")
_t("call.arr", "s", "call tarr(a, 3)\ncall tarr(b, 2)")
_t("call.arrsec", "s", "call tarr(a(2:3), 2)\ncall tarr(n=2, v=c(3:4))")
_t("call.arrfun", "s", "x = tnorm(a)\ny = tnorm(b(1:2))\nx = x + tnorm(v=c)")
_t("call.elem", "", "x = tfe(x)\na = tfe(b)")
_t("call.elemarr", "", "call tsub(a(1), b(0))\ncall tsub(q=a(1), p=a(2))")
_t("call.struct", "", "call tsub(s%r, s%v(2), s%i)")
_t("call.intrsub", "", "call random_seed()\nk = k + 1")

# ---- statements kept verbatim (CodeBlocks) -------------------------------
_t("cb.print", "ckp", "print *, 'P', k, isel")
_t("cb.printfmt", "", "print '(a,i4)', 'P', isel")
_t("cb.write", "", "write (*, *) 'W', isel, x")
_t("cb.writefmt", "", "write (*, '(a,f8.3,i3)') 'W', x, isel")
_t("cb.goto", "c", "if (isel > 1) goto {L}0\nk = k + 1\n{L}0 continue")
_t("cb.gotostmt", "", "if (isel > 1) goto {L}0\nk = k + 1\n{L}0 k = k + 10")
_t("cb.gotoback", "", "k = 0\n{L}0 k = k + 1\nif (k < n) goto {L}0")
_t("cb.gotomid", "", "if (isel > 1) goto {L}0\nk = k + 1\nj = j + 1\n{L}0 continue\nk = k + 10")
_t("cb.label", "", "{L}0 continue\nk = k + 1\n{L}1 k = k + 1")
_t("cb.labelif", "", "if (isel > 2) goto {L}0\nk = k + 1\n{L}0 if (l) k = k + 10")
_t("cb.labeldo", "", "if (isel > 2) goto {L}0\nk = k + 1\n{L}0 do i = 1, n\n  k = k + 10\nend do")
_t("cb.stop", "", "if (k > 100000) stop\nif (k > 100000) error stop")
_t("cb.assoc", "", "associate (q => x)\n  q = q + 1.0\nend associate")
_t("cb.block", "", "block\n  integer :: tloc\n  tloc = isel\n  k = k + tloc\nend block")
_t("cb.forall", "", "forall (i = 1:3) a(i) = a(i) + i\nforall (i = 1:3, a(i) > 0.0)\n  b(i - 1) = a(i)\nend forall")
_t("cb.chr", "", "select case (ch // 'x')\ncase ('ax')\n  k = 10\ncase default\n  k = 11\nend select")
_t("cb.between", "", "k = k + 1\nprint *, 'P1', k\nk = k * 2\nprint *, 'P2', k\nwrite (*, *) 'P3', k\nk = k + 1")
_t("cb.arith", "", "k = isel - 1\nif (k > 0) then\n  k = 5\n  print *, 'Q', k\nelse\n  k = 6\nend if")
_t("cb.continue", "", "continue\nk = k + 1")
_t("cb.semicolon", "", "k = k + 1; j = j + 1; if (l) k = 0")
_t("cb.contline", "", "k = k + &\n    isel * &\n    2\nx = x &\n  & + 1.0")

# ---- allocate / deallocate ------------------------------------------------
_t("alloc.basic", "c", "allocate(w(3))\nw(:) = a(:) * 2.0\nx = sum(w)\ndeallocate(w)")
_t("alloc.var", "", "allocate(w(n))\nw(:) = 1.5\nx = sum(w) + size(w)\ndeallocate(w)")
_t("alloc.lb", "", "allocate(w(0:n))\nw(:) = 1.5\nk = lbound(w, 1) * 10 + ubound(w, 1)\ndeallocate(w)")
_t("alloc.mold", "", "allocate(w, mold=b)\nw(:) = b(:)\nk = lbound(w, 1)\nx = w(1)\ndeallocate(w)")
_t("alloc.source", "", "allocate(w, source=a)\nx = w(3)\ndeallocate(w)")
_t("alloc.stat", "", "allocate(w(2), stat=k)\nif (allocated(w)) j = 7\ndeallocate(w, stat=i)")
_t("alloc.where", "", "allocate(w(0:2))\nw(:) = b(:)\nwhere (w(:) > 0.0) a(:) = w(:)\nwhere (a(:) > 0.0) w(:) = 0.0\nx = sum(w)\ndeallocate(w)")
_t("alloc.auto", "", "w = b\nx = sum(w) + lbound(w, 1)\ndeallocate(w)")

# ---- return (host s only) -------------------------------------------------
_t("ret.if", "S", "if (isel > 2) return\nk = k + 1")
_t("ret.block", "S", "if (isel > 2) then\n  k = 50\n  return\nend if\nk = k + 1")


def _mk_templates():
    out = {}
    for key, flags, text in _T:
        if key in out:
            raise ValueError(f"duplicate template {key}")
        out[key] = {"key": key, "flags": flags, "text": text,
                    "container": "{BODY}" in text,
                    "family": key.split(".")[0]}
    return out


TEMPLATES = _mk_templates()
ORDER = [t[0] for t in _T]
#: templates whose hole must not receive these families
_NO_INNER = {"ret"}

_WORD = re.compile(r"[A-Za-z_][A-Za-z0-9_]*")


def _words(text):
    # names, with character literals removed
    text = re.sub(r"'[^']*'", " ", text)
    return {w.lower() for w in _WORD.findall(text)}


def render_item(item, pos):
    """item = [tmpl, inner-or-None]; pos = 1-based position in the program."""
    name, inner = item[0], item[1] if len(item) > 1 else None
    tmpl = TEMPLATES[name]
    text = tmpl["text"]
    ivar = "io" if inner else "i"
    text = text.replace("{I}", ivar).replace("{L}", str(pos * 10 + 1)) \
               .replace("{N}", str(pos))
    lines = []
    for line in text.split("\n"):
        if line.strip() == "{BODY}":
            if inner:
                itext = TEMPLATES[inner]["text"]
                itext = itext.replace("{I}", "i") \
                             .replace("{L}", str(pos * 10 + 2)) \
                             .replace("{N}", str(pos) + "b")
                for sub in itext.split("\n"):
                    if sub.strip() != "{BODY}":
                        lines.append("  " + sub)
            continue
        lines.append(line)
    return lines


def item_key(item):
    return item[0] + (f"[{item[1]}]" if len(item) > 1 and item[1] else "")


def prog_key(spec):
    return spec["host"] + ":" + "+".join(item_key(it) for it in spec["items"])


def parse_key(key):
    host, rest = key.split(":", 1)
    items = []
    for part in rest.split("+"):
        mat = re.fullmatch(r"([a-z0-9_.]+)(?:\[([a-z0-9_.]+)\])?", part)
        if not mat:
            raise ValueError(f"bad program key {key}")
        items.append([mat.group(1), mat.group(2)])
    return {"host": host, "items": items}


def _indent(lines, num):
    pre = " " * num
    return [pre + ln if ln else ln for ln in lines]


def build(spec):
    """-> dict(key, source, inputs {name: (lo, hi)}, ncases, vars)."""
    host = spec["host"]
    body = []
    for pos, item in enumerate(spec["items"], 1):
        body += render_item(item, pos)
    words = _words("\n".join(body))
    used = [v for v in VARS if v in words]
    locs = [v for v in LOCALS if v in words]
    if "vv" in locs and host == "m":
        raise ValueError("vv needs host s")
    inputs = [v for v in INPUTS if v in words and v != "iv"]
    if any(v in DATA_VARS for v in used):
        inputs = ["iv"] + inputs
    if "vv" in locs and "n" not in inputs:
        inputs.append("n")
    helpers = [h for h in HELPERS if h in words]
    if "s" in used and "tt" not in helpers:
        helpers.insert(0, "tt")
    if "tcount" in helpers and "tcnt" not in helpers:
        helpers.insert(0, "tcnt")
    helpers.sort(key=list(HELPERS).index)
    need_m = "b" in used or "d" in used or ("m" in words)

    # ---- module ----------------------------------------------------------
    mod = ["module tmod", "  implicit none"]
    sub_m = host != "m" and ("m" in words or (host == "s" and "b" in used))
    if sub_m:
        mod.append("  integer, parameter :: m = 2")
    for hlp in helpers:
        if HELPERS[hlp][0] in ("type", "var"):
            mod += _indent(HELPERS[hlp][1].split("\n"), 2)
    procs = [h for h in helpers if HELPERS[h][0] == "proc"]
    if procs or host != "m":
        mod.append("contains")
    for hlp in procs:
        mod += _indent(HELPERS[hlp][1].split("\n"), 2)
    if host != "m":
        args = inputs + used
        mod.append(f"  subroutine twork({', '.join(args)})")
        for name in inputs:
            mod.append("    " + INPUTS[name][1])
        for name in used:
            mod.append("    " + VARS[name][-1 if host == "t" else 1])
        for name in locs:
            mod.append("    " + LOCALS[name])
        mod += _indent(body, 4)
        if "vv" in locs:
            mod.append("    print *, 'vv', vv")
        mod.append("  end subroutine twork")
    mod.append("end module tmod")

    # ---- main program ----------------------------------------------------
    main = ["program tprog"]
    if host != "m":
        main.append("  use tmod")
    elif helpers:
        names = [h for h in helpers]
        main.append("  use tmod, only: " + ", ".join(names))
    main.append("  implicit none")
    if need_m and not sub_m:
        main.append("  integer, parameter :: m = 2")
    for name in inputs:
        main.append("  " + INPUTS[name][0])
    for name in ("l", "lp", "lq"):
        if name in inputs:
            main.append(f"  integer :: i{name}")
    if "ch" in inputs:
        main.append("  integer :: ic")
    for name in used:
        main.append("  " + VARS[name][0])
    if host == "m":
        for name in locs:
            main.append("  " + LOCALS[name])
    depth = 1
    ncases = 1
    for name in inputs:
        low, high = INPUTS[name][2]
        ncases *= high - low + 1
        pre = "  " * depth
        if name in ("l", "lp", "lq"):
            main.append(f"{pre}do i{name} = 0, 1")
            main.append(f"{pre}  {name} = i{name} == 1")
        elif name == "ch":
            main.append(f"{pre}do ic = 1, 3")
            main.append(f"{pre}  ch = 'a'")
            main.append(f"{pre}  if (ic == 2) ch = 'b'")
            main.append(f"{pre}  if (ic == 3) ch = 'c'")
        else:
            main.append(f"{pre}do {name} = {low}, {high}")
        depth += 1
    pre = "  " * depth
    case_vars = ", ".join(inputs)
    main.append(f"{pre}print *, 'CASE'" + (", " + case_vars if inputs else ""))
    if "tcnt" in helpers:
        main.append(f"{pre}tcnt = 0")
    for name in used:
        main += _indent(INIT[name], 2 * depth)
    if host == "m":
        main += _indent(body, 2 * depth)
    else:
        main.append(f"{pre}call twork({', '.join(inputs + used)})")
    for name in used:
        main.append(pre + PRINT[name])
    for name in reversed(inputs):
        depth -= 1
        main.append("  " * depth + "end do")
    main.append("end program tprog")
    if len(mod) > 3 or host != "m":
        source = "\n".join(mod + main) + "\n"
    else:
        source = "\n".join(main) + "\n"
    return {"key": prog_key(spec), "spec": spec, "source": source,
            "inputs": inputs, "ncases": ncases, "vars": used}


# ---------------------------------------------------------------------------
# enumeration
# ---------------------------------------------------------------------------
def _flag(flag):
    return [k for k in ORDER if flag in TEMPLATES[k]["flags"]]


def _hosts(name):
    flags = TEMPLATES[name]["flags"]
    if "S" in flags:
        return ["s"]
    if "s" not in flags:
        return ["m"]
    if _words(TEMPLATES[name]["text"]) & set(LB_VARS):
        return ["m", "s", "t"]
    return ["m", "s"]


def _both(names):
    hosts = None
    for name in names:
        here = set(_hosts(name))
        hosts = here if hosts is None else hosts & here
    return hosts or set()


def _nestable(outer, inner):
    tout, tin = TEMPLATES[outer], TEMPLATES[inner]
    if not tout["container"]:
        return False
    if "S" in tin["flags"] or tin["family"] in _NO_INNER:
        return False
    if outer == "do.label" and tin["text"].find("{L}") >= 0:
        return True
    return True


QUICK_CORE_DROPPED = ("do.dn", "sel.log", "where.2d", "call.fun")
#: the quick tier enumerates all ordered pairs over these 16 core templates only
QUICK_PAIR_CORE = ("do.up", "do.while", "if.block", "if.elseif", "sel.single",
                   "sel.mix", "sel.chr", "where.stmt", "where.stmtlb",
                   "where.else", "where.modmask", "arr.bare", "int.sum",
                   "call.reorder", "cb.print", "cb.goto")


def statement_specs(tier):
    """Size-ordered list of (class, spec).  The quick list is a prefix-wise
    subset of the thorough list (same classes, thorough adds classes)."""
    core = _flag("c")
    if tier == "quick":
        # CPU budget of the quick tier: four core templates only take part in
        # nests / sequences in the thorough tier
        core = [k for k in core if k not in QUICK_CORE_DROPPED]
    mini = _flag("k")
    conts = [k for k in ORDER if TEMPLATES[k]["container"]]
    core_conts = [k for k in conts if k in core]
    out = []
    # size 1: every template on every host it supports
    for name in ORDER:
        for host in _hosts(name):
            out.append(("s1", {"host": host, "items": [[name, None]]}))
    # nesting depth 2: core containers x core templates (host m)
    for outer in core_conts:
        for inner in core:
            if _nestable(outer, inner):
                out.append(("n2core", {"host": "m", "items": [[outer, inner]]}))
    # size 2: core x core (quick: over the pair core only)
    pair_core = [k for k in core if tier != "quick" or k in QUICK_PAIR_CORE]
    for one in pair_core:
        for two in pair_core:
            out.append(("s2core", {"host": "m", "items": [[one, None], [two, None]]}))
    if tier == "thorough":
        seen = {prog_key(s) for _c, s in out}
        probe = _flag("p")
        # mini-core containers x every template
        for outer in [k for k in mini if TEMPLATES[k]["container"]]:
            for inner in ORDER:
                if _nestable(outer, inner):
                    spec = {"host": "m", "items": [[outer, inner]]}
                    if prog_key(spec) not in seen:
                        seen.add(prog_key(spec))
                        out.append(("n2all", spec))
        # pairs with a probe member (both orders), host m
        for one in ORDER:
            for two in ORDER:
                if (one in probe or two in probe) and \
                        "S" not in TEMPLATES[one]["flags"] + TEMPLATES[two]["flags"]:
                    spec = {"host": "m", "items": [[one, None], [two, None]]}
                    if prog_key(spec) not in seen:
                        seen.add(prog_key(spec))
                        out.append(("s2all", spec))
        # pairs on host s: core x core among templates that support it
        for one in core:
            for two in core:
                if _both([one, two]) >= {"s"}:
                    out.append(("s2sub", {"host": "s",
                                          "items": [[one, None], [two, None]]}))
        # size 3 over the mini core, and nested + one
        for trio in itertools.product(mini, repeat=3):
            out.append(("s3mini", {"host": "m",
                                   "items": [[t, None] for t in trio]}))
        for outer in [k for k in mini if TEMPLATES[k]["container"]]:
            for inner in mini:
                for third in mini:
                    if _nestable(outer, inner):
                        out.append(("n2s3mini", {"host": "m", "items": [
                            [outer, inner], [third, None]]}))
    return out


# ---------------------------------------------------------------------------
# declaration grammar (C03)
# ---------------------------------------------------------------------------
# A declaration program is
#
#   [used modules]  module dmod: use / default access / declarations / access
#   statements + interfaces / contains dsub(da, dn) [+ feature procedures]
#   [main program]
#
# Each feature contributes text to the named parts; all names of a feature carry
# its number so that any set of features composes.  ``slot`` = features that
# exclude each other.
_F = []


def _f(key, slot=None, **parts):
    feat = {"key": key, "slot": slot}
    for name, text in parts.items():
        feat[name] = text.strip("\n").split("\n")
    _F.append(feat)


_UM = """module um{n}
  implicit none
  integer :: u{n}a = 1
  integer :: u{n}b = 2
  integer, parameter :: u{n}c = 3
  type :: u{n}t
    integer :: q
  end type u{n}t
contains
  subroutine u{n}sub(arg)
    integer, intent(inout) :: arg
    arg = arg + u{n}a
  end subroutine u{n}sub
end module um{n}"""

_f("acc.private", slot="access", access="private", after="public :: dsub")
_f("acc.public", slot="access", access="public", decl="integer :: f2hidden",
   after="private :: f2hidden")
_f("acc.attr", decl="integer, private :: f3a\ninteger, public :: f3b\n"
   "real, parameter, public :: f3c = 1.5")
_f("acc.protected", decl="integer, protected :: f4p = 3")
_f("acc.privproc", after="private :: f56helper", procs="""subroutine f56helper(z)
  real, intent(out) :: z
  z = 1.0
end subroutine f56helper""")
_f("par.chain", decl="integer, parameter :: f5a = 2\ninteger, parameter :: f5b = f5a * 2\n"
   "integer, parameter :: f5c = f5b + f5a", sdecl="real :: f5arr(f5c)",
   stmts="f5arr(1) = f5b")
_f("par.multi", decl="integer, parameter :: f6a = 2, f6b = f6a + 1, f6c = f6b * f6a")
_f("par.reverse", decl="integer, parameter :: f7z = 3\ninteger, parameter :: f7a = f7z + 1\n"
   "integer, parameter :: f7m = f7a * f7z")
_f("par.stmt", decl="integer :: f8p\nparameter (f8p = 4)")
_f("par.routine", sdecl="integer, parameter :: f9n = 3\ninteger, parameter :: f9m = f9n * 2\n"
   "real :: f9w(f9n,f9m)", stmts="f9w(1,1) = 0.0")
_f("par.routinerev", sdecl="integer, parameter :: f9z = 3\ninteger, parameter :: f9b = f9z + 1\n"
   "integer :: f9v(f9b)", stmts="f9v(f9z) = f9b")
_f("kind.wp", decl="integer, parameter :: f10wp = kind(1.0d0)\nreal(kind=f10wp) :: f10r\n"
   "real(f10wp), parameter :: f10c = 1.0_f10wp", sdecl="real(kind=f10wp) :: f10x",
   stmts="f10x = 2.0_f10wp * f10c")
_f("kind.sel", decl="integer, parameter :: f11i8 = selected_int_kind(12)\n"
   "integer(kind=f11i8) :: f11big\ninteger, parameter :: f11r = selected_real_kind(6, 30)\n"
   "real(f11r) :: f11x")
_f("kind.lit", decl="double precision :: f12d\nreal(8) :: f12e\ninteger(kind=4) :: f12i\n"
   "logical(kind=4) :: f12l\ncomplex :: f12c", stmts="f12d = 1.0d0\nf12i = 2_4")
_f("kind.used", pre=_UM.format(n=8) + "\nmodule uk8\n  integer, parameter :: r_def = 8\nend module uk8",
   use="use uk8, only: r_def", decl="real(kind=r_def) :: f13r\nreal(r_def), parameter :: f13p = 0.5_r_def",
   stmts="f13r = 2.0_r_def * f13p")
_f("type.basic", decl="""type :: f13t
  integer :: n = 3
  real :: r(2) = 0.0
  logical :: flag = .false.
end type f13t
type(f13t) :: f13v""", sdecl="type(f13t) :: f13loc", stmts="f13loc%n = f13v%n + 1")
_f("type.nested", decl="""type, public :: f14a
  integer :: id
end type f14a
type, public :: f14b
  type(f14a) :: inner
  type(f14a) :: arr(2)
  real, dimension(3) :: w
end type f14b""", sdecl="type(f14b) :: f14v", stmts="f14v%inner%id = 1\nf14v%arr(2)%id = f14v%inner%id")
_f("type.extends", decl="""type :: f15base
  integer :: id
end type f15base
type, extends(f15base) :: f15child
  real :: w
end type f15child""", sdecl="type(f15child) :: f15v", stmts="f15v%id = 1\nf15v%w = 2.0")
_f("type.privcomp", decl="""type :: f16t
  private
  integer :: hidden
  real, public :: shown
end type f16t""")
_f("type.bound", decl="""type :: f17t
  integer :: val
contains
  procedure :: get => f17get
end type f17t""", procs="""function f17get(this) result(r)
  class(f17t), intent(in) :: this
  integer :: r
  r = this%val
end function f17get""")
_f("type.pointer", decl="""type :: f18node
  real, pointer :: p(:) => null()
  type(f18node), pointer :: next => null()
  real, allocatable :: al(:)
end type f18node""")
_f("type.order", decl="""type :: f19outer
  type(f19inner), pointer :: ptr
end type f19outer
type :: f19inner
  integer :: n
end type f19inner
type(f19outer) :: f19z
integer, parameter :: f19n = 2
type :: f19sized
  real :: arr(f19n)
end type f19sized""")
_f("iface.generic", after="""interface f19gen
  module procedure f19a, f19b
end interface f19gen""", procs="""subroutine f19a(x)
  real, intent(inout) :: x
  x = x + 1.0
end subroutine f19a
subroutine f19b(i)
  integer, intent(inout) :: i
  i = i + 1
end subroutine f19b""", stmts="call f19gen(k)")
_f("iface.ext", after="""interface
  subroutine f20ext(x)
    real, intent(in) :: x
  end subroutine f20ext
end interface""")
_f("iface.abstract", after="""abstract interface
  function f21fn(x) result(r)
    real, intent(in) :: x
    real :: r
  end function f21fn
end interface
procedure(f21fn), pointer :: f21p => null()""")
_f("iface.operator", after="""interface operator(.fop.)
  module procedure f22op
end interface""", procs="""function f22op(p, q) result(r)
  integer, intent(in) :: p
  integer, intent(in) :: q
  integer :: r
  r = p * 10 + q
end function f22op""", stmts="k = k .fop. 2")
_f("iface.routine", sdecl="""interface
  function f23ext(i) result(r)
    integer, intent(in) :: i
    integer :: r
  end function f23ext
end interface""")
_f("use.only", pre=_UM.format(n=1), use="use um1, only: u1a, u1b", stmts="k = u1a + u1b")
_f("use.rename", pre=_UM.format(n=2), use="use um2, only: f24r => u2c, u2a", stmts="k = f24r + u2a")
_f("use.wild", pre=_UM.format(n=3), use="use um3", stmts="k = u3a")
_f("use.wildrename", pre=_UM.format(n=4), use="use um4, f26r => u4a", stmts="k = f26r + u4b")
_f("use.routine", pre=_UM.format(n=5), suse="use um5, only: u5a, u5sub", stmts="call u5sub(k)\nk = k + u5a")
_f("use.both", pre=_UM.format(n=6), use="use um6, only: u6a", suse="use um6, only: u6b",
   stmts="k = u6a + u6b")
_f("use.type", pre=_UM.format(n=7), use="use um7, only: u7t", sdecl="type(u7t) :: f29v",
   stmts="f29v%q = 1")
_f("use.wildcall", pre=_UM.format(n=9), suse="use um9", stmts="call u9sub(k)\nk = k + u9c")
_f("use.empty", pre=_UM.format(n=10), use="use um10, only:")
_f("save.attr", decl="integer, save :: f30s = 0", sdecl="integer, save :: f30c = 0",
   stmts="f30c = f30c + 1")
_f("save.stmt", sdecl="integer :: f31c\nsave :: f31c", stmts="f31c = 1")
_f("save.all", slot="msave", decl="save\ninteger :: f31m")
_f("save.init", sdecl="integer :: f32c = 0\nreal :: f32r(2) = 1.0", stmts="f32c = f32c + 1")
_f("common", sdecl="integer :: f33a\nreal :: f33b\ncommon /f33blk/ f33a, f33b", stmts="f33a = 1")
_f("data", sdecl="integer :: f34d\ndata f34d /5/", stmts="k = f34d")
_f("comments", decl="! a comment before a declaration\ninteger :: f35a ! trailing comment",
   stmts="! a comment line\nk = k + 1 ! trailing\n! another")
_f("directives", sdecl="integer :: f36i",
   stmts="!$omp parallel do\ndo f36i = 1, 3\n  da(f36i) = 0.0\nend do\n!$omp end parallel do")
_f("directives2", sdecl="integer :: f36j",
   stmts="!$acc kernels\ndo f36j = 1, 3\n  da(f36j) = 1.0\nend do\n!$acc end kernels\n!dir$ ivdep\nk = 2")
_f("clash.widx", sdecl="integer :: widx1\nreal :: f37a(3)",
   stmts="widx1 = 2\nf37a(:) = 1.0\nwhere (f37a(:) > 0.0) f37a(:) = 0.0")
_f("clash.widx2", sdecl="integer :: widx1_1\nreal :: f37b(3)",
   stmts="widx1_1 = 2\nf37b(:) = 1.0\nwhere (f37b(:) > 0.0) f37b(:) = 0.0\nwhere (f37b(:) < 0.0) f37b(:) = 1.0")
_f("clash.cmp", pre=_UM.format(n=11), suse="use um11",
   stmts="select case (u11a)\ncase (1)\n  k = 1\ncase default\n  k = 2\nend select")
_f("clash.cmp2", pre=_UM.format(n=12), use="use um12", decl="integer :: psyclone_internal_cmp",
   stmts="select case (u12a)\ncase (1)\n  k = 1\nend select")
_f("arr.decls", sdecl="real, dimension(3) :: f39a, f39b\nreal :: f39c(3), f39s, f39d(0:2)\n"
   "real, allocatable :: f39e(:,:)\nreal, pointer :: f39p(:)\nreal, target :: f39t(2)\n"
   "integer :: f39i(2) = (/1, 2/)", stmts="f39a(1) = f39s")
_f("arr.bounds", decl="integer, parameter :: f46n = 4\nreal :: f46a(f46n), f46b(0:f46n)\n"
   "real :: f46c(2*f46n)\nreal :: f46d(-1:1)\nreal, dimension(f46n,2) :: f46e")
_f("char.decls", sdecl="character(len=10) :: f40a\ncharacter(len=*), parameter :: f40b = 'hello'\n"
   "character :: f40c\ncharacter(len=5), dimension(2) :: f40d\ncharacter(len=2) :: f40e(3)",
   stmts="f40a = f40b\nf40c = 'x'")
_f("dummy.attrs", procs="""subroutine f41s(a, b, c, n, m)
  real, intent(inout), contiguous :: a(:)
  real, intent(in), optional :: b
  real, dimension(*) :: c
  integer, value :: n
  integer :: m
  if (present(b)) a(1) = b
  c(1) = n + m
end subroutine f41s""")
_f("func.variants", procs="""integer function f42a(x)
  real, intent(in) :: x
  f42a = int(x)
end function f42a
function f42b(x) result(r)
  real, intent(in) :: x
  real :: r
  r = x
end function f42b
pure real function f42c(x)
  real, intent(in) :: x
  f42c = x * 2.0
end function f42c
elemental function f42d(x) result(r)
  real, intent(in) :: x
  real :: r
  r = x
end function f42d
recursive function f42e(n) result(r)
  integer, intent(in) :: n
  integer :: r
  if (n <= 0) then
    r = 0
  else
    r = n + f42e(n - 1)
  end if
end function f42e""", stmts="k = f42a(1.5) + f42e(2)")
_f("func.array", procs="""function f53(n) result(r)
  integer, intent(in) :: n
  real :: r(n)
  r(:) = 1.0
end function f53""")
_f("init.expr", decl="real, parameter :: f43pi = 3.14159, f43two = 2.0 * f43pi\n"
   "integer, parameter :: f43arr(3) = (/1, 2, 3/)\ninteger, parameter :: f43n = size(f43arr)\n"
   "logical, parameter :: f43l = .true.")
_f("misc.unsup", sdecl="real, external :: f44e\nintrinsic :: sin\ninteger, volatile :: f44v\n"
   "integer :: f44k\nnamelist /f44nl/ f44k", stmts="f44v = 1")
_f("enum", decl="enum, bind(c)\n  enumerator :: f45a = 1, f45b\nend enum")
_f("block", stmts="block\n  integer :: f48t\n  f48t = 1\n  k = k + f48t\nend block")
_f("format", stmts="write (*, 100) k\n100 format (i4)")
_f("case.upper", decl="INTEGER :: F59UP\nReal, Parameter :: F59Mixed = 1.0", stmts="F59UP = 1\nK = f59up")
_f("contline", decl="integer :: f60a, &\n           f60b, &\n           f60c", stmts="k = f60a + &\n    f60b")
_f("implicit.routine", sdecl_first="implicit none")
_f("main", slot="main", post="""program dprog
  use dmod, only: dsub
  implicit none
  real :: pa(3)
  call dsub(pa, 3)
end program dprog""")
_f("main.wild", slot="main", post="""program dprog
  use dmod
  real :: pa(3)
  pa(:) = 0.0
  call dsub(pa, 3)
  print *, pa
end program dprog""")

#: features that interact through the symbol tables (used for sets of three)
DECL_CORE = ["acc.private", "acc.public", "acc.attr", "par.chain", "par.multi",
             "par.reverse", "par.routine", "kind.wp", "kind.used", "type.basic",
             "type.nested", "type.extends", "iface.generic", "iface.operator",
             "use.only", "use.rename", "use.wild", "use.wildrename",
             "use.routine", "use.both", "use.type", "save.attr", "common",
             "clash.widx", "clash.cmp", "arr.decls", "main", "main.wild"]
DECL_FEATURES = {f["key"]: f for f in _F}
DECL_ORDER = [f["key"] for f in _F]

#: statement snippets for dsub (they only use dsub's own names)
DECL_SNIPPETS = {
    "where": ["where (da(:) > 0.0) da(:) = 0.0"],
    "select": ["select case (dn)", "case (1)", "  k = 10", "case (2:)", "  k = 11",
               "case default", "  k = 12", "end select"],
    "print": ["print *, k", "write (*, *) da"],
    "loopif": ["do i = 1, dn", "  if (da(i) > 1.0) then", "    da(i) = 1.0", "  end if", "end do"],
}


def decl_key(feats, snips):
    return "d:" + ",".join(feats) + "|" + ",".join(snips)


def build_decl(feats, snips):
    """-> dict(key, source)."""
    parts = {name: [] for name in ("pre", "use", "access", "decl", "after",
                                   "procs", "suse", "sdecl_first", "sdecl",
                                   "stmts", "post")}
    for key in feats:
        feat = DECL_FEATURES[key]
        for name in parts:
            if name in feat:
                parts[name] += feat[name]
    src = list(parts["pre"])
    src += ["module dmod"] + _indent(parts["use"], 2) + ["  implicit none"]
    src += _indent(parts["access"] + parts["decl"] + parts["after"], 2)
    src += ["contains", "  subroutine dsub(da, dn)"]
    src += _indent(parts["suse"] + parts["sdecl_first"], 4)
    src += ["    integer, intent(in) :: dn", "    real, intent(inout) :: da(dn)",
            "    integer :: i", "    integer :: k"]
    src += _indent(parts["sdecl"], 4)
    src += ["    k = dn + 1", "    i = 1"]
    src += _indent(parts["stmts"], 4)
    for snip in snips:
        src += _indent(DECL_SNIPPETS[snip], 4)
    src += ["    da(1) = k", "  end subroutine dsub"]
    src += _indent(parts["procs"], 2)
    src += ["end module dmod"] + parts["post"]
    return {"key": decl_key(feats, snips), "source": "\n".join(src) + "\n",
            "feats": list(feats), "snips": list(snips)}


def _compatible(feats):
    slots = [DECL_FEATURES[f]["slot"] for f in feats if DECL_FEATURES[f]["slot"]]
    return len(slots) == len(set(slots))


def decl_specs(tier):
    """Size-ordered list of (class, feats, snips); quick is a subset of thorough."""
    snip_names = list(DECL_SNIPPETS)
    snip_sets = [()] + [(s,) for s in snip_names] + \
        list(itertools.combinations(snip_names, 2))
    out = []
    out.append(("d0", (), ()))
    for snips in snip_sets[1:]:
        out.append(("d0", (), snips))
    for feat in DECL_ORDER:
        for snips in snip_sets:
            out.append(("d1", (feat,), snips))
    for pair in itertools.combinations(DECL_ORDER, 2):
        if _compatible(pair):
            out.append(("d2", pair, ()))
    if tier == "thorough":
        for pair in itertools.combinations(DECL_ORDER, 2):
            if _compatible(pair):
                for snip in snip_names:
                    out.append(("d2s", pair, (snip,)))
        core = [f for f in DECL_ORDER if f in DECL_CORE]
        for trio in itertools.combinations(core, 3):
            if _compatible(trio):
                out.append(("d3", trio, ()))
    return out
