#!/venv/bin/python
"""Development aid for C07: turn VERIF_DUMP_VIOL files into notes/C07.known.json
(signatures are mechanism-level, so no side files are needed).

usage: /venv/bin/python -m mc.gen.c07_triage DUMP [DUMP ...] [--write]

Every signature of the dump must be matched by exactly one finding below,
otherwise the tool stops: nothing is listed that has not been triaged."""
import json
import os
import re
import sys

ROOT = os.path.dirname(os.path.dirname(os.path.dirname(os.path.abspath(__file__))))

# (finding id, what, predicate on sig, side file or None)
FEATURES = ["component-actual-not-shifted-to-dummy-bounds",
            "bounds-inquiry-answers-for-the-actual",
            "whole-dummy-becomes-whole-larger-actual"]


def first_feature(sig):
    """The highest-priority known mechanism named in a `wrong[..]|features`
    signature (None for every other signature)."""
    mat = re.match(r"^InlineTrans\|wrong\|(.+)$", sig)
    if not mat:
        return None
    feats = mat.group(1).split("+")
    for feat in FEATURES:
        if feat in feats:
            return feat
    return None


def is_member_shift(sig):
    return first_feature(sig) == FEATURES[0]


def is_inquiry(sig):
    return first_feature(sig) == FEATURES[1]


def is_short(sig):
    return first_feature(sig) == FEATURES[2]


FINDINGS = [
    ("C07-actual-reevaluated-at-use",
     "InlineTrans substitutes the text of an actual argument for every use of the dummy, "
     "so `call c(a(i), i)` / `call c(i + 1, i)` with a callee that changes its second "
     "dummy before using the first accesses a(i_new) / i_new + 1 instead of the element / "
     "value selected at the call (the transformed program behaves exactly like the "
     "original under call-by-name argument passing)",
     lambda s: s == "InlineTrans|actual-arguments-re-evaluated-at-each-use(call-by-name)",
     None),
    ("C07-local-shadows-module-variable",
     "a local variable of the inlined routine that is named like a variable of the "
     "enclosing module is declared in the caller under that name, so the caller's own "
     "references to the module variable now address the new local",
     lambda s: s.startswith("InlineTrans|name-capture(g):"), None),
    ("C07-dummy-extent-in-full-range",
     "x(:) on an explicit-shape dummy x(nx) / x(0:mx) / y(nx,nx) is inlined as "
     "actual(:nx): the dummy's extent argument is not substituted (root cause: "
     "Routine.copy() leaves the array bounds of copied symbols pointing at the symbols "
     "of the original routine, see C15 / fixes/C15-copy-repoint-symbols-in-types.diff), "
     "the generated caller uses an undeclared name",
     lambda s: s == "InlineTrans|invalid:undeclared-extent-dummy@stmt", None),
    ("C07-automatic-array-bounds-not-substituted",
     "a local automatic array of the inlined routine whose bounds use a dummy argument "
     "(integer :: la(nx)) is declared in the caller with the dummy's name in its bounds: "
     "the generated caller uses an undeclared name",
     lambda s: s in ("InlineTrans|invalid:undeclared-extent-dummy@decl",
                     "InlineTrans|invalid:undeclared-extent-dummy@decl+stmt"), None),
    ("C07-structure-member-actual-lower-bound",
     "an array component actual argument (w%d) associated with a dummy whose lower bound "
     "is not 1 (x(0:mx), x(2:)) is indexed with the dummy's subscripts without shifting "
     "them to the component's bounds",
     is_member_shift, None),
    ("C07-bounds-inquiry-on-dummy",
     "LBOUND/UBOUND of a dummy array are inlined as LBOUND/UBOUND of the actual argument, "
     "which differ when the dummy is declared with other bounds (x(0:mx), x(2:)) or a "
     "smaller extent",
     is_inquiry, None),
    ("C07-explicit-shape-smaller-than-actual",
     "a whole-array reference to an explicit-shape dummy x(nx) that is associated with a "
     "larger actual array is inlined as the whole actual array (x = x + 1, sum(x) touch "
     "all elements of a instead of the first nx)",
     is_short, None),
]


def main():
    rows = []
    for dump in sys.argv[1:]:
        if not dump.startswith("--"):
            rows += [json.loads(line) for line in open(dump, encoding="utf-8")]
    sigs = sorted({r["sig"] for r in rows})
    buckets = {}
    for sig in sigs:
        hits = [f for f in FINDINGS if f[2](sig)]
        if len(hits) != 1:
            sys.exit(f"signature matched by {len(hits)} findings: {sig}")
        buckets.setdefault(hits[0][0], []).append(sig)
    out = {"findings": []}
    for fid, what, _pred, path in FINDINGS:
        lst = buckets.get(fid, [])
        ncases = sum(1 for r in rows if r["sig"] in set(lst))
        print(f"{fid}: {len(lst)} signatures, {ncases} cases -> {path or 'inline'}")
        if not lst:
            continue
        entry = {"property": "C07", "id": fid, "status": "open", "what": what}
        if path:
            entry["sigs_file"] = path
            if "--write" in sys.argv:
                with open(os.path.join(ROOT, path), "w", encoding="utf-8") as fout:
                    for sig in lst:
                        fout.write(sig + "\n")
        else:
            entry["sigs"] = lst
        out["findings"].append(entry)
    if "--write" in sys.argv:
        with open(os.path.join(ROOT, "notes", "C07.known.json"), "w",
                  encoding="utf-8") as fout:
            json.dump(out, fout, indent=1)
            fout.write("\n")


if __name__ == "__main__":
    main()
