"""C07 harness conformance: the ORIGINAL programs of a block are compiled with
gfortran and run on the enumerated inputs; the printed final values of the
driver's arguments must equal E1's final store wherever E1 calls the (program,
input) pair admissible.  A disagreement (or a program that gfortran rejects)
is a harness error, never a violation."""
import os
import re
import subprocess

RUNNER = """  subroutine run_{j}(n, kin)
    integer, intent(in) :: n, kin
    integer :: m, k, r, og, j1, j2
    integer :: a(n + 1), b(0:n), q(n + 1, n + 1), p(2:4, 0:3)
    type(ty_{j}) :: w
    m = n + 1
    k = kin
    r = 7
    og = -1
    do j1 = 1, m
      a(j1) = 10 * j1 + 1
    end do
    do j1 = 0, n
      b(j1) = 100 + 10 * j1 + 2
    end do
    do j2 = 1, m
      do j1 = 1, m
        q(j1, j2) = 1000 + 100 * j1 + 10 * j2 + 3
      end do
    end do
    do j2 = 0, 3
      do j1 = 2, 4
        p(j1, j2) = 2000 + 100 * j1 + 10 * j2 + 4
      end do
    end do
    w%f = 3
    do j1 = 1, 4
      w%d(j1) = 50 + j1
    end do
    call drv_{j}(n, m, k, r, a, b, q, p, w, og)
    print '(A,*(1X,I0))', "CASE", {j}, n, kin, n, m, k, r, a, b, q, p, w%f, w%d, og
  end subroutine run_{j}
"""


def flat_observation(args):
    """Values in the order printed by RUNNER (POISON kept as is)."""
    from mc.fortsem import interp as I
    out = []
    for stor in args:
        if isinstance(stor, I.Cell):
            out.append(stor.v)
        elif isinstance(stor, I.ArrayVal):
            out.extend(c.v for c in stor.cells)
        else:
            out.append(stor.members["f"].v)
            out.extend(c.v for c in stor.members["d"].cells)
    return out


def build(progs):
    """progs: list of (source, [(n, k), ...]) -> one Fortran file."""
    text = []
    uses = []
    runs = []
    calls = []
    for j, (src, ins) in enumerate(progs):
        text.append(re.sub(r"\bmodule mo\b", f"module mo_{j}", src))
        uses.append(f"  use mo_{j}, only: drv_{j} => drv, ty_{j} => ty\n")
        runs.append(RUNNER.format(j=j))
        for nval, kval in ins:
            calls.append(f"  call run_{j}({nval}, {kval})\n")
    return ("".join(text) + "program main\n" + "".join(uses) +
            "  implicit none\n" + "".join(calls) + "contains\n" +
            "".join(runs) + "end program main\n")


def compile_and_run(text, workdir, tag):
    path = os.path.join(workdir, f"{tag}.f90")
    exe = os.path.join(workdir, f"{tag}.x")
    with open(path, "w", encoding="utf-8") as fout:
        fout.write(text)
    res = subprocess.run(
        ["/usr/bin/gfortran", "-O0", "-std=f2008", "-fimplicit-none",
         "-ffree-line-length-none", "-J", workdir, "-o", exe, path],
        capture_output=True, text=True, cwd=workdir, check=False)
    if res.returncode != 0:
        return None, res.stderr
    run = subprocess.run([exe], capture_output=True, text=True, cwd=workdir,
                         check=False, timeout=120)
    for name in os.listdir(workdir):
        if name.startswith("mo_") and name.endswith(".mod"):
            os.remove(os.path.join(workdir, name))
    os.remove(path)
    os.remove(exe)
    if run.returncode != 0:
        return None, f"run failed ({run.returncode}): {run.stderr[:500]}"
    out = {}
    for line in run.stdout.splitlines():
        parts = line.split()
        if parts and parts[0] == "CASE":
            vals = [int(p) for p in parts[1:]]
            out[(vals[0], vals[1], vals[2])] = vals[3:]
    return out, ""
