"""E1-based oracle for C12 (shared with C13): executes one statement region
[p..q] of a schedule of the ORIGINAL program under a "region protocol":

every time control reaches the region (once for a top-level region, once per
iteration / taken branch for a nested one) the interpreter

  1. saves the complete store of the routine (every cell of every dummy
     argument and local variable),
  2. for each reported input list: poisons every variable that is NOT in the
     list, executes the region statements (the *replay*), records the outcome
     and restores the saved store,
  3. executes the region for real with a tracer that records the upward
     exposed reads (location read before any write to it inside this region
     instance, incoming value defined) and the written locations,
  4. compares, for every location the real run wrote, the replayed value.

Nothing here looks at PSyclone's access analysis: the reported lists are plain
sets of lower-case variable names.
"""
from psyclone.psyir import nodes as N
from psyclone.psyir.symbols import DataSymbol

from mc.fortsem import interp as I


class RegionInterp(I.Interp):
    """Interp that hands the statements sched.children[p..q] to a callback
    each time control reaches them."""

    def __init__(self, tree, sched, pidx, qidx, on_region, hooks=None,
                 horizon=100000):
        super().__init__(tree, hooks=hooks, horizon=horizon)
        self.region_sched = sched
        self.pidx = pidx
        self.qidx = qidx
        self.on_region = on_region
        self.main = sched if isinstance(sched, N.Routine) \
            else sched.ancestor(N.Routine)
        self.var_cells = None      # name -> list of cells (set on entry)
        self.known = None          # id(cell) -> True for the routine's cells
        self.on_entry = None       # optional callback(interp) once the cells
        #                            of the routine (locals included) exist

    def exec_schedule(self, sched, frame):
        if sched is self.main and self.var_cells is None:
            self._collect_cells(frame)
            if self.on_entry is not None:
                self.on_entry(self)
        if sched is not self.region_sched:
            super().exec_schedule(sched, frame)
            return
        kids = sched.children
        idx = 0
        while idx < len(kids):
            if idx == self.pidx:
                self.on_region(self, kids[self.pidx:self.qidx + 1], frame)
                idx = self.qidx + 1
            else:
                self.exec(kids[idx], frame)
                idx += 1

    def _collect_cells(self, frame):
        """Touch every data symbol of the routine so that its storage exists
        before the first region instance, and index all cells by variable."""
        self.var_cells = {}
        self.known = {}
        for sym in self.main.symbol_table.symbols:
            if not isinstance(sym, DataSymbol) or sym.is_constant:
                continue
            stor = self.storage(sym, frame)
            if isinstance(stor, I.Cell):
                cells = [stor]
            elif isinstance(stor, I.ArrayVal):
                cells = list(stor.cells)
            else:
                raise I.Unsupported(f"storage of {sym.name}")
            # loc[0] is the name of the variable that allocated the cell
            # (the actual argument for dummies): the region's variables are
            # named like the dummies in this corpus.
            self.var_cells[sym.name.lower()] = cells
            for cell in cells:
                self.known[id(cell)] = sym.name.lower()


class InstanceResult:
    """What one region instance did (real run) and what each replay did."""
    __slots__ = ("ue_reads", "writes", "replays", "whole")

    def __init__(self):
        self.ue_reads = {}    # var -> first UE-read location (tuple)
        self.writes = {}      # var -> set of written locations
        self.replays = {}     # list-id -> None (same) | (kind, detail)
        self.whole = {}       # list-id -> True if some cell of a written
        #                       VARIABLE (written or not) differs (statistic)


def make_protocol(input_lists, results):
    """Returns the on_region callback.

    input_lists: dict list-id -> frozenset of variable names that hold their
    real values in the replay.  results: list, one InstanceResult appended per
    region instance."""

    def on_region(interp, nodes, frame):
        cells = [(name, cell) for name, group in interp.var_cells.items()
                 for cell in group]
        entry = [cell.v for _n, cell in cells]
        inst = InstanceResult()
        # -- replays (on a poisoned store), then restore
        replay_vals = {}
        for lid, names in input_lists.items():
            for name, cell in cells:
                if name not in names:
                    cell.v = I.POISON
            saved_tracer = interp.tracer
            interp.tracer = None
            depth = (len(interp.loop_stack), len(interp.stmt_stack),
                     len(interp.frames))
            try:
                for node in nodes:
                    interp.exec(node, frame)
                replay_vals[lid] = [cell.v for _n, cell in cells]
            except I.UB as err:
                replay_vals[lid] = ("ub", err.kind, str(err))
            finally:
                interp.tracer = saved_tracer
                del interp.loop_stack[depth[0]:]
                del interp.stmt_stack[depth[1]:]
                del interp.frames[depth[2]:]
                for (_n, cell), val in zip(cells, entry):
                    cell.v = val
        # -- the real run, traced
        written = set()
        known = interp.known
        entry_of = {id(cell): val for (_n, cell), val in zip(cells, entry)}

        def tracer(kind, cell, _node, _it):
            name = known.get(id(cell))
            if name is None:
                return
            if kind == "R":
                if id(cell) not in written and name not in inst.ue_reads \
                        and entry_of[id(cell)] is not I.POISON:
                    inst.ue_reads[name] = cell.loc
            else:
                written.add(id(cell))
                inst.writes.setdefault(name, set()).add(cell.loc)

        outer = interp.tracer
        interp.tracer = tracer
        try:
            for node in nodes:
                interp.exec(node, frame)
        finally:
            interp.tracer = outer
        # -- compare the replays on the locations the real run wrote
        for lid, vals in replay_vals.items():
            if isinstance(vals, tuple):
                inst.replays[lid] = ("ub", vals[2])
                inst.whole[lid] = True
                continue
            bad = None
            whole = False
            for (name, cell), got in zip(cells, vals):
                if cell.v is I.POISON or (got is not I.POISON and got == cell.v):
                    continue
                if id(cell) in written:
                    if bad is None:
                        bad = ("value", f"{show_loc(cell.loc)} = {show_val(got)}"
                                        f" instead of {show_val(cell.v)}")
                elif name in inst.writes:
                    whole = True
            inst.replays[lid] = bad
            inst.whole[lid] = whole or bad is not None
        results.append(inst)

    return on_region


def show_loc(loc):
    name = loc[0]
    idx = loc[1] if len(loc) > 1 else ()
    return f"{name}({','.join(str(i) for i in idx)})" if idx else name


def show_val(val):
    from fractions import Fraction
    if isinstance(val, Fraction):
        return str(float(val))
    return repr(val)


# ---------------------------------------------------------------------------
# textual first access (mechanism classification; my own walker)
# ---------------------------------------------------------------------------
def first_access(nodes, name):
    """How the region first mentions variable `name`, following Fortran's
    evaluation order (right-hand side and subscripts before the left-hand
    side is defined; loop bounds, then the loop variable, then the body;
    condition, then branches).  Returns one of
      'read'                     first mention is a value read
      'write-whole'              unconditional write of the whole variable
      'write-part'               unconditional write of an element / section
      'write-conditional'        a write inside a loop body / branch
      'write-part-conditional'   element / section write inside a loop body / branch
      'call'                     first mention is an actual argument of a call
      'none'
    """
    for kind in _accesses(nodes, False):
        if kind[0] == name:
            return kind[1]
    return "none"


def _accesses(nodes, cond):
    for node in nodes:
        yield from _stmt(node, cond)


def _reads(expr):
    """Value reads of an expression in source order (inquiry arguments of
    LBOUND/UBOUND/SIZE are not value reads)."""
    if isinstance(expr, N.IntrinsicCall) and \
            expr.intrinsic.name in ("LBOUND", "UBOUND", "SIZE"):
        for arg in expr.arguments[1:]:
            yield from _reads(arg)
        return
    if isinstance(expr, N.Reference) and not isinstance(expr, N.Call):
        for child in expr.children:
            yield from _reads(child)
        yield (expr.symbol.name.lower(), "read")
        return
    for child in expr.children:
        if isinstance(expr, N.Call) and child is expr.children[0]:
            continue
        yield from _reads(child)


def _is_whole(ref):
    """True if the reference denotes the whole variable."""
    if not isinstance(ref, N.ArrayReference):
        return True
    for idx in ref.indices:
        if not isinstance(idx, N.Range):
            return False
        for bound, which in ((idx.start, "LBOUND"), (idx.stop, "UBOUND")):
            if not (isinstance(bound, N.IntrinsicCall) and
                    bound.intrinsic.name == which and
                    isinstance(bound.arguments[0], N.Reference) and
                    bound.arguments[0].symbol is ref.symbol):
                return False
        if not (isinstance(idx.step, N.Literal) and idx.step.value == "1"):
            return False
    return True


def _stmt(node, cond):
    if isinstance(node, N.Assignment):
        yield from _reads(node.rhs)
        for child in node.lhs.children:
            yield from _reads(child)
        whole = _is_whole(node.lhs)
        kind = "write-whole" if whole else "write-part"
        if cond:
            kind = "write-conditional" if whole else "write-part-conditional"
        yield (node.lhs.symbol.name.lower(), kind)
    elif isinstance(node, N.Loop):
        for expr in (node.start_expr, node.stop_expr, node.step_expr):
            yield from _reads(expr)
        yield (node.variable.name.lower(),
               "write-conditional" if cond else "write-whole")
        yield from _accesses(node.loop_body.children, True)
    elif isinstance(node, N.IfBlock):
        yield from _reads(node.condition)
        yield from _accesses(node.if_body.children, True)
        if node.else_body is not None:
            yield from _accesses(node.else_body.children, True)
    elif isinstance(node, N.Call):
        for arg in node.arguments:
            if isinstance(arg, N.Reference):
                for child in arg.children:
                    yield from _reads(child)
                yield (arg.symbol.name.lower(), "call")
            else:
                yield from _reads(arg)
    elif isinstance(node, N.Directive):
        if isinstance(node, N.RegionDirective):
            yield from _accesses(node.dir_body.children, cond)
    else:
        raise RuntimeError(f"first_access: statement {type(node).__name__}")


def mechanism(nodes, name, is_array):
    """Mechanism label of a variable whose incoming value is read although it
    is missing from the inputs."""
    kind = first_access(nodes, name)
    what = "array" if is_array else "scalar"
    return {
        "read": f"{what}-read-first",
        "call": f"{what}-first-passed-to-call",
        "write-whole": f"{what}-first-written-whole",
        "write-part": f"{what}-first-written-in-part",
        "write-conditional": f"{what}-first-written-conditionally",
        "write-part-conditional": f"{what}-first-written-in-part-conditionally",
        "none": f"{what}-not-mentioned",
    }[kind]
