"""C20 oracle: the LFRic built-ins as DOCUMENTED in the user guide.

``TABLE`` is a transcription of doc/user_guide/dynamo0p3.rst, section
"Built-ins": one line per built-in, ``name | signature | formula``, with the
signature and the formula copied from the guide (``**x**`` = the argument that
is modified, ``*x*`` = read-only argument).  Nothing in here looks at
lfric_builtins.py.

Three mechanical cross-checks (``crosscheck``) turn a transcription slip into
a harness error instead of an alarm:

1. the guide really contains that signature and that formula for that name,
   and documents no built-in that the table lacks;
2. the metadata in src/psyclone/parse/lfric_builtins_mod.f90 has the same
   number of arguments with the same field/scalar kind, data type and an
   access that agrees with the signature (modified -> GH_WRITE, GH_READWRITE
   when the formula also reads it, GH_SUM for a scalar; read-only -> GH_READ);
3. the formula is evaluated twice, by ``Formula`` (a small evaluator of the
   guide's Fortran array syntax) and by the hand-written ``LAMBDAS``; the two
   must agree on every input the check uses (``reference``).

Values are exact rationals (``fractions.Fraction``).  ``Undefined`` marks
inputs for which the documented operation has no value (division by zero,
negative base with a non-integer exponent, 0**0, 0**negative) and ``Inexact``
results that no exact arithmetic can give (irrational roots): such DoFs are
not judged.
"""
import os
import re
from fractions import Fraction

TABLE = """
X_plus_Y | **field3**, *field1*, *field2* | field3(:) = field1(:) + field2(:)
inc_X_plus_Y | **field1**, *field2* | field1(:) = field1(:) + field2(:)
a_plus_X | **field2**, *rscalar*, *field1* | field2(:) = rscalar + field1(:)
inc_a_plus_X | *rscalar*, **field** | field(:) = rscalar + field(:)
aX_plus_Y | **field3**, *rscalar*, *field1*, *field2* | field3(:) = rscalar*field1(:) + field2(:)
inc_aX_plus_Y | *rscalar*, **field1**, *field2* | field1(:) = rscalar*field1(:) + field2(:)
inc_X_plus_bY | **field1**, *rscalar*, *field2* | field1(:) = field1(:) + rscalar*field2(:)
aX_plus_bY | **field3**, *rscalar1*, *field1*, *rscalar2*, *field2* | field3(:) = rscalar1*field1(:) + rscalar2*field2(:)
inc_aX_plus_bY | *rscalar1*, **field1**, *rscalar2*, *field2* | field1(:) = rscalar1*field1(:) + rscalar2*field2(:)
aX_plus_aY | **field3**, *rscalar*, *field1*, *field2* | field3(:) = rscalar*(field1(:) + field2(:))
X_minus_Y | **field3**, *field1*, *field2* | field3(:) = field1(:) - field2(:)
inc_X_minus_Y | **field1**, *field2* | field1(:) = field1(:) - field2(:)
a_minus_X | **field2**, *rscalar*, *field1* | field2(:) = rscalar - field1(:)
inc_a_minus_X | *rscalar*, **field** | field(:) = rscalar - field(:)
X_minus_a | **field2**, *field1*, *rscalar* | field2(:) = field1(:) - rscalar
inc_X_minus_a | **field**, *rscalar* | field(:) = field(:) - rscalar
aX_minus_Y | **field3**, *rscalar*, *field1*, *field2* | field3(:) = rscalar*field1(:) - field2(:)
X_minus_bY | **field3**, *field1*, *rscalar*, *field2* | field3(:) = field1(:) - rscalar*field2(:)
inc_X_minus_bY | **field1**, *rscalar*, *field2* | field1(:) = field1(:) - rscalar*field2(:)
aX_minus_bY | **field3**, *rscalar1*, *field1*, *rscalar2*, *field2* | field3(:) = rscalar1*field1(:) - rscalar2*field2(:)
X_times_Y | **field3**, *field1*, *field2* | field3(:) = field1(:)*field2(:)
inc_X_times_Y | **field1**, *field2* | field1(:) = field1(:)*field2(:)
inc_aX_times_Y | *rscalar*, **field1**, *field2* | field1(:) = rscalar*field1(:)*field2(:)
a_times_X | **field2**, *rscalar*, *field1* | field2(:) = rscalar*field1(:)
inc_a_times_X | *rscalar*, **field** | field(:) = rscalar*field(:)
X_divideby_Y | **field3**, *field1*, *field2* | field3(:) = field1(:)/field2(:)
inc_X_divideby_Y | **field1**, *field2* | field1(:) = field1(:)/field2(:)
X_divideby_a | **field2**, *field1*, *rscalar* | field2(:) = field1(:)/rscalar
inc_X_divideby_a | **field**, *rscalar* | field(:) = field(:)/rscalar
a_divideby_X | **field2**, *rscalar*, *field1* | field2(:) = rscalar/field1(:)
inc_a_divideby_X | *rscalar*, **field** | field(:) = rscalar/field(:)
setval_c | **field**, *constant* | field(:) = constant
setval_X | **field2**, *field1* | field2(:) = field1(:)
setval_random | **field** | do df = 1, ndofs ; field(df) = RAND() ; end do
inc_X_powreal_a | **field**, *rscalar* | field(:) = field(:)**rscalar
inc_X_powint_n | **field**, *iscalar* | field(:) = field(:)**iscalar
X_innerproduct_Y | **innprod**, *field1*, *field2* | innprod = SUM(field1(:)*field2(:))
X_innerproduct_X | **innprod**, *field* | innprod = SUM(field(:)*field(:))
sum_X | **sumfld**, *field* | sumfld = SUM(field(:))
sign_X | **field2**, *rscalar*, *field1* | field2(:) = SIGN(rscalar, field1(:))
max_aX | **field2**, *rscalar*, *field1* | field2(:) = MAX(rscalar, field1(:))
inc_max_aX | *rscalar*, **field** | field(:) = MAX(rscalar, field(:))
min_aX | **field2**, *rscalar*, *field1* | field2(:) = MIN(rscalar, field1(:))
inc_min_aX | *rscalar*, **field** | field(:) = MIN(rscalar, field(:))
real_to_int_X | **ifield2**, *field1* | ifield2(:) = INT(field1(:), kind=i_<prec>)
real_to_real_X | **field2**, *field1* | field2(:) = REAL(field1(:), kind=r_<prec>)
int_X_plus_Y | **ifield3**, *ifield1*, *ifield2* | ifield3(:) = ifield1(:) + ifield2(:)
int_inc_X_plus_Y | **ifield1**, *ifield2* | ifield1(:) = ifield1(:) + ifield2(:)
int_a_plus_X | **ifield2**, *iscalar*, *ifield1* | ifield2(:) = iscalar + ifield1(:)
int_inc_a_plus_X | *iscalar*, **ifield** | ifield(:) = iscalar + ifield(:)
int_X_minus_Y | **ifield3**, *ifield1*, *ifield2* | ifield3(:) = ifield1(:) - ifield2(:)
int_inc_X_minus_Y | **ifield1**, *ifield2* | ifield1(:) = ifield1(:) - ifield2(:)
int_a_minus_X | **ifield2**, *iscalar*, *ifield1* | ifield2(:) = iscalar - ifield1(:)
int_inc_a_minus_X | *iscalar*, **ifield** | ifield(:) = iscalar - ifield(:)
int_X_minus_a | **ifield2**, *ifield1*, *iscalar* | ifield2(:) = ifield1(:) - iscalar
int_inc_X_minus_a | **ifield**, *iscalar* | ifield(:) = ifield(:) - iscalar
int_X_times_Y | **ifield3**, *ifield1*, *ifield2* | ifield3(:) = ifield1(:)*ifield2(:)
int_inc_X_times_Y | **ifield1**, *ifield2* | ifield1(:) = ifield1(:)*ifield2(:)
int_a_times_X | **ifield2**, *iscalar*, *ifield1* | ifield2(:) = iscalar*ifield1(:)
int_inc_a_times_X | *iscalar*, **ifield** | ifield(:) = iscalar*ifield(:)
int_setval_c | **ifield**, *constant* | ifield(:) = constant
int_setval_X | **ifield2**, *ifield1* | ifield2(:) = ifield1(:)
int_sign_X | **ifield2**, *iscalar*, *ifield1* | ifield2(:) = SIGN(iscalar, ifield1(:))
int_max_aX | **ifield2**, *iscalar*, *ifield1* | ifield2(:) = MAX(iscalar, ifield1(:))
int_inc_max_aX | *iscalar*, **ifield** | ifield(:) = MAX(iscalar, ifield(:))
int_min_aX | **ifield2**, *iscalar*, *ifield1* | ifield2(:) = MIN(iscalar, ifield1(:))
int_inc_min_aX | *iscalar*, **ifield** | ifield(:) = MIN(iscalar, ifield(:))
int_to_real_X | **field2**, *ifield1* | field2(:) = REAL(ifield1(:), kind=r_<prec>)
"""

RANDOM = "setval_random"


class Undefined(Exception):
    """The documented operation has no value for this input."""


class Inexact(Exception):
    """The value is not a rational number: not judged."""


class TableError(Exception):
    """Transcription / cross-check failure: a harness error."""


# ---------------------------------------------------------------------------
# the table as objects
# ---------------------------------------------------------------------------
class Arg:
    """One documented argument: `name`, `written` (bold in the guide),
    `is_field`, `dtype` ('real' | 'integer')."""

    def __init__(self, name, written, builtin):
        self.name = name
        self.written = written
        if name.startswith("ifield"):
            self.is_field, self.dtype = True, "integer"
        elif name.startswith("field"):
            self.is_field, self.dtype = True, "real"
        elif name.startswith("iscalar"):
            self.is_field, self.dtype = False, "integer"
        elif name.startswith("rscalar") or name in ("innprod", "sumfld"):
            self.is_field, self.dtype = False, "real"
        elif name == "constant":
            # "a real scalar constant" / "an integer scalar constant"
            self.is_field = False
            self.dtype = "integer" if builtin.startswith("int_") else "real"
        else:
            raise TableError(f"{builtin}: cannot classify argument '{name}'")

    def __repr__(self):
        return ("**" if self.written else "*") + self.name


class Entry:
    """One built-in as documented."""

    def __init__(self, name, signature, formula):
        self.name = name
        self.signature = signature
        self.formula_text = formula
        self.args = []
        for item in signature.split(","):
            item = item.strip()
            mat = re.fullmatch(r"(\*\*|\*)(\w+)(\*\*|\*)", item)
            if not mat or mat.group(1) != mat.group(3):
                raise TableError(f"{name}: bad signature item '{item}'")
            self.args.append(Arg(mat.group(2), mat.group(1) == "**", name))
        written = [a for a in self.args if a.written]
        if len(written) != 1:
            raise TableError(f"{name}: exactly one modified argument expected")
        self.out = written[0]
        self.is_reduction = not self.out.is_field
        self.formula = None if name == RANDOM else Formula(self)
        if self.formula is not None:
            self.reads_out = self.out.name in self.formula.names_read
        else:
            self.reads_out = False
        # a read-only argument that the formula never reads would be a slip
        if self.formula is not None:
            for arg in self.args:
                if not arg.written and arg.name not in self.formula.names_read:
                    raise TableError(f"{name}: '{arg.name}' unused in formula")

    @property
    def fields(self):
        return [a for a in self.args if a.is_field]

    @property
    def scalars_read(self):
        return [a for a in self.args if not a.is_field and not a.written]


def _parse_table():
    out = {}
    for line in TABLE.strip().splitlines():
        name, sig, formula = [p.strip() for p in line.split("|")]
        if name in out:
            raise TableError(f"duplicate table entry {name}")
        out[name] = Entry(name, sig, formula)
    return out


# ---------------------------------------------------------------------------
# evaluator of the guide's formulas
# ---------------------------------------------------------------------------
_TOK = re.compile(r"\s*(\*\*|[A-Za-z_]\w*(?:<\w+>)?|\(:\)|[-+*/(),=])")


def _tokens(text):
    pos, out = 0, []
    text = text.strip()
    while pos < len(text):
        mat = _TOK.match(text, pos)
        if not mat:
            raise TableError(f"cannot tokenise formula at '{text[pos:]}'")
        out.append(mat.group(1))
        pos = mat.end()
    return out


def f_sign(aval, bval):
    """Fortran SIGN(A, B): |A| if B >= 0, -|A| if B < 0."""
    return abs(aval) if bval >= 0 else -abs(aval)


def f_int(xval):
    """Fortran INT: truncation towards zero."""
    return Fraction(int(xval))     # int(Fraction) truncates towards zero


def f_pow(base, expo):
    """base**expo over the rationals."""
    if expo.denominator == 1:
        num = expo.numerator
        if base == 0 and num <= 0:
            raise Undefined("0**n with n <= 0")
        return base ** num
    if base < 0:
        raise Undefined("negative base, non-integer exponent")
    if base == 0:
        if expo < 0:
            raise Undefined("0**negative")
        return Fraction(0)
    if expo == Fraction(1, 2):
        from math import isqrt
        rnum, rden = isqrt(base.numerator), isqrt(base.denominator)
        if rnum * rnum == base.numerator and rden * rden == base.denominator:
            return Fraction(rnum, rden)
    raise Inexact("irrational power")


def f_div(num, den):
    if den == 0:
        raise Undefined("division by zero")
    return num / den


class Formula:
    """`lhs = expr` or `lhs = SUM(expr)` in the guide's array syntax, as a
    small AST evaluated per DoF on exact rationals."""

    FUNCS = {"SIGN": 2, "MAX": 2, "MIN": 2, "INT": 1, "REAL": 1}

    def __init__(self, entry):
        self.entry = entry
        self.toks = _tokens(entry.formula_text)
        self.pos = 0
        self.names_read = set()
        lhs = self._next()
        if lhs != entry.out.name:
            raise TableError(f"{entry.name}: formula assigns '{lhs}', signature "
                             f"modifies '{entry.out.name}'")
        if entry.out.is_field:
            self._expect("(:)")
        self._expect("=")
        self.is_sum = False
        if self._peek() == "SUM":
            self._next()
            self._expect("(")
            self.is_sum = True
            self.ast = self._expr()
            self._expect(")")
        else:
            self.ast = self._expr()
        if self.pos != len(self.toks):
            raise TableError(f"{entry.name}: trailing tokens in formula")
        if self.is_sum != entry.is_reduction:
            raise TableError(f"{entry.name}: SUM / scalar result mismatch")

    # -- parser ----------------------------------------------------------
    def _peek(self):
        return self.toks[self.pos] if self.pos < len(self.toks) else None

    def _next(self):
        tok = self._peek()
        self.pos += 1
        return tok

    def _expect(self, tok):
        got = self._next()
        if got != tok:
            raise TableError(f"{self.entry.name}: expected '{tok}' got '{got}'")

    def _expr(self):                       # + - (left associative)
        if self._peek() == "-":
            self._next()
            node = ("neg", self._term())
        else:
            node = self._term()
        while self._peek() in ("+", "-"):
            opr = self._next()
            node = (opr, node, self._term())
        return node

    def _term(self):                       # * /
        node = self._factor()
        while self._peek() in ("*", "/"):
            opr = self._next()
            node = (opr, node, self._factor())
        return node

    def _factor(self):                     # ** (right associative)
        node = self._primary()
        if self._peek() == "**":
            self._next()
            node = ("**", node, self._factor())
        return node

    def _primary(self):
        tok = self._next()
        if tok == "(":
            node = self._expr()
            self._expect(")")
            return node
        if tok in self.FUNCS:
            self._expect("(")
            args = [self._expr()]
            while self._peek() == ",":
                self._next()
                if self._peek() == "kind":         # kind=<...> : ignored
                    self._next()
                    self._expect("=")
                    self._next()
                else:
                    args.append(self._expr())
            self._expect(")")
            if len(args) != self.FUNCS[tok]:
                raise TableError(f"{self.entry.name}: {tok} arity")
            return (tok,) + tuple(args)
        arg = next((a for a in self.entry.args if a.name == tok), None)
        if arg is None:
            raise TableError(f"{self.entry.name}: unknown name '{tok}' in formula")
        if arg.is_field:
            self._expect("(:)")
        self.names_read.add(tok)
        return ("var", tok)

    # -- evaluation --------------------------------------------------------
    def _ev(self, node, env):
        kind = node[0]
        if kind == "var":
            return env[node[1]]
        if kind == "neg":
            return -self._ev(node[1], env)
        if kind in ("+", "-", "*", "/", "**"):
            lhs, rhs = self._ev(node[1], env), self._ev(node[2], env)
            if kind == "+":
                return lhs + rhs
            if kind == "-":
                return lhs - rhs
            if kind == "*":
                return lhs * rhs
            if kind == "/":
                return f_div(lhs, rhs)
            return f_pow(lhs, rhs)
        vals = [self._ev(n, env) for n in node[1:]]
        if kind == "SIGN":
            return f_sign(*vals)
        if kind == "MAX":
            return max(vals)
        if kind == "MIN":
            return min(vals)
        if kind == "INT":
            return f_int(vals[0])
        if kind == "REAL":
            return vals[0]
        raise TableError(f"unknown node {kind}")

    def dof(self, env):
        """Value of the right-hand side for one DoF; env: documented argument
        name -> Fraction (the DoF's value for a field)."""
        return self._ev(self.ast, env)


# second, independent transcription (hand-written, positional over the
# documented argument order: x = list of the argument values)
def _real_lambdas():
    d = f_div
    return {
        "X_plus_Y": lambda z, x, y: x + y,
        "inc_X_plus_Y": lambda x, y: x + y,
        "a_plus_X": lambda y, a, x: a + x,
        "inc_a_plus_X": lambda a, x: a + x,
        "aX_plus_Y": lambda z, a, x, y: a * x + y,
        "inc_aX_plus_Y": lambda a, x, y: a * x + y,
        "inc_X_plus_bY": lambda x, b, y: x + b * y,
        "aX_plus_bY": lambda z, a, x, b, y: a * x + b * y,
        "inc_aX_plus_bY": lambda a, x, b, y: a * x + b * y,
        "aX_plus_aY": lambda z, a, x, y: a * (x + y),
        "X_minus_Y": lambda z, x, y: x - y,
        "inc_X_minus_Y": lambda x, y: x - y,
        "a_minus_X": lambda y, a, x: a - x,
        "inc_a_minus_X": lambda a, x: a - x,
        "X_minus_a": lambda y, x, a: x - a,
        "inc_X_minus_a": lambda x, a: x - a,
        "aX_minus_Y": lambda z, a, x, y: a * x - y,
        "X_minus_bY": lambda z, x, b, y: x - b * y,
        "inc_X_minus_bY": lambda x, b, y: x - b * y,
        "aX_minus_bY": lambda z, a, x, b, y: a * x - b * y,
        "X_times_Y": lambda z, x, y: x * y,
        "inc_X_times_Y": lambda x, y: x * y,
        "inc_aX_times_Y": lambda a, x, y: a * x * y,
        "a_times_X": lambda y, a, x: a * x,
        "inc_a_times_X": lambda a, x: a * x,
        "X_divideby_Y": lambda z, x, y: d(x, y),
        "inc_X_divideby_Y": lambda x, y: d(x, y),
        "X_divideby_a": lambda y, x, a: d(x, a),
        "inc_X_divideby_a": lambda x, a: d(x, a),
        "a_divideby_X": lambda y, a, x: d(a, x),
        "inc_a_divideby_X": lambda a, x: d(a, x),
        "setval_c": lambda x, c: c,
        "setval_X": lambda y, x: x,
        "inc_X_powreal_a": lambda x, a: f_pow(x, a),
        "inc_X_powint_n": lambda x, n: f_pow(x, n),
        "X_innerproduct_Y": lambda s, x, y: x * y,
        "X_innerproduct_X": lambda s, x: x * x,
        "sum_X": lambda s, x: x,
        "sign_X": lambda y, a, x: (a if a >= 0 else -a) if x >= 0
        else (-a if a >= 0 else a),
        "max_aX": lambda y, a, x: a if a > x else x,
        "inc_max_aX": lambda a, x: a if a > x else x,
        "min_aX": lambda y, a, x: a if a < x else x,
        "inc_min_aX": lambda a, x: a if a < x else x,
        "real_to_int_X": lambda y, x: Fraction(
            x.numerator // x.denominator if x >= 0
            else -((-x.numerator) // x.denominator)),
        "real_to_real_X": lambda y, x: x,
        "int_to_real_X": lambda y, x: x,
    }


def _all_lambdas():
    out = _real_lambdas()
    for name in ["X_plus_Y", "inc_X_plus_Y", "a_plus_X", "inc_a_plus_X",
                 "X_minus_Y", "inc_X_minus_Y", "a_minus_X", "inc_a_minus_X",
                 "X_minus_a", "inc_X_minus_a", "X_times_Y", "inc_X_times_Y",
                 "a_times_X", "inc_a_times_X", "setval_c", "setval_X",
                 "sign_X", "max_aX", "min_aX"]:
        out["int_" + name] = out[name]
    out["int_inc_max_aX"] = out["inc_max_aX"]
    out["int_inc_min_aX"] = out["inc_min_aX"]
    return out


ENTRIES = _parse_table()
LAMBDAS = _all_lambdas()


def reference(name, values):
    """Documented value for one DoF.  `values`: documented argument name ->
    Fraction (None for a write-only argument).  Both transcriptions are
    evaluated and must agree (TableError otherwise).  Raises Undefined /
    Inexact for inputs that are not judged."""
    entry = ENTRIES[name]
    env = {k: v for k, v in values.items() if v is not None}
    exc1 = exc2 = None
    res1 = res2 = None
    try:
        res1 = entry.formula.dof(env)
    except (Undefined, Inexact) as err:
        exc1 = err
    try:
        res2 = LAMBDAS[name](*[values[a.name] for a in entry.args])
    except (Undefined, Inexact) as err:
        exc2 = err
    if (exc1 is None) != (exc2 is None) or \
            (exc1 is not None and type(exc1) is not type(exc2)):
        raise TableError(f"{name}: the two transcriptions disagree on "
                         f"definedness for {values}: {exc1!r} / {exc2!r}")
    if exc1 is not None:
        raise exc1
    if res1 != res2:
        raise TableError(f"{name}: the two transcriptions disagree for "
                         f"{values}: {res1} / {res2}")
    return res1


# ---------------------------------------------------------------------------
# cross-checks against the guide and the metadata
# ---------------------------------------------------------------------------
def _norm(text):
    return re.sub(r"\s+", "", text)


def parse_guide(path):
    """{name: (signature, [code lines])} from the "Built-ins" section of the
    guide: every sub-sub-heading (underlined with ^^^) must be followed by a
    line ``**name** (arguments)`` and a literal block (introduced by ``::``)."""
    with open(path, encoding="utf-8") as fin:
        lines = fin.read().splitlines()
    try:
        start = next(i for i, l in enumerate(lines)
                     if l.strip() == ".. _lfric-built-ins:")
        stop = next(i for i, l in enumerate(lines)
                    if i > start and l.strip() == "Boundary Conditions")
    except StopIteration:
        raise TableError("cannot find the Built-ins section of the guide")
    under = re.compile(r"^(\^{3,}|#{3,}|\+{3,}|-{3,}|={3,})\s*$")
    heads = [i for i in range(start, stop)
             if lines[i].strip() and under.match(lines[i + 1])]
    found = {}
    for num, idx in enumerate(heads):
        if not lines[idx + 1].startswith("^^^"):
            continue
        name = lines[idx].strip()
        end = heads[num + 1] if num + 1 < len(heads) else stop
        body = lines[idx + 2:end]
        sig = None
        code = []
        pos = 0
        while pos < len(body):
            mat = re.match(r"^\*\*(\w+)\*\* \((.*)\)\s*$", body[pos])
            if mat and sig is None:
                if mat.group(1) != name:
                    raise TableError(f"guide: heading {name} is followed by "
                                     f"the signature of {mat.group(1)}")
                sig = mat.group(2)
            elif sig is not None and not code and \
                    body[pos].rstrip().endswith("::"):
                pos += 1
                while pos < len(body) and not body[pos].strip():
                    pos += 1
                while pos < len(body) and body[pos].startswith("  ") and \
                        body[pos].strip():
                    code.append(body[pos].strip())
                    pos += 1
                continue
            pos += 1
        if sig is None or not code:
            raise TableError(f"guide: no signature/formula found for {name}")
        if name in found:
            raise TableError(f"guide: {name} documented twice")
        found[name] = (sig, code)
    return found


def parse_metadata(path):
    """{name: [(GH_FIELD|GH_SCALAR, GH_REAL|GH_INTEGER, access), ...]}"""
    with open(path, encoding="utf-8") as fin:
        text = fin.read()
    out = {}
    for mat in re.finditer(
            r"type,\s*public,\s*extends\(kernel_type\)\s*::\s*(\w+)(.*?)"
            r"end type\s+(\w+)", text, re.S | re.I):
        name, body = mat.group(1), mat.group(2)
        if mat.group(3) != name:
            raise TableError(f"metadata: type {name} ends as {mat.group(3)}")
        nargs = int(re.search(r"meta_args\((\d+)\)", body).group(1))
        args = [tuple(p.strip().upper() for p in a.split(","))
                for a in re.findall(r"arg_type\(([^)]*)\)", body)]
        if len(args) != nargs:
            raise TableError(f"metadata: {name} meta_args count")
        if not re.search(r"operates_on\s*=\s*DOF", body, re.I):
            raise TableError(f"metadata: {name} does not operate on DOF")
        out[name] = args
    return out


def crosscheck(repo):
    """All mechanical checks of the table; raises TableError."""
    guide = parse_guide(os.path.join(repo, "doc", "user_guide",
                                     "dynamo0p3.rst"))
    meta = parse_metadata(os.path.join(repo, "src", "psyclone", "parse",
                                       "lfric_builtins_mod.f90"))
    if set(guide) != set(ENTRIES):
        raise TableError(f"guide/table names differ: "
                         f"{sorted(set(guide) ^ set(ENTRIES))}")
    if set(meta) != set(ENTRIES):
        raise TableError(f"metadata/table names differ: "
                         f"{sorted(set(meta) ^ set(ENTRIES))}")
    if set(LAMBDAS) | {RANDOM} != set(ENTRIES):
        raise TableError(f"lambda/table names differ: "
                         f"{sorted((set(LAMBDAS) | {RANDOM}) ^ set(ENTRIES))}")
    for name, entry in ENTRIES.items():
        sig, code = guide[name]
        if _norm(sig) != _norm(entry.signature):
            raise TableError(f"{name}: guide signature '{sig}' != table "
                             f"'{entry.signature}'")
        if _norm(";".join(code)) != _norm(entry.formula_text):
            raise TableError(f"{name}: guide formula {code} != table "
                             f"'{entry.formula_text}'")
        margs = meta[name]
        if len(margs) != len(entry.args):
            raise TableError(f"{name}: metadata has {len(margs)} arguments, "
                             f"guide {len(entry.args)}")
        for pos, (arg, marg) in enumerate(zip(entry.args, margs)):
            want_kind = "GH_FIELD" if arg.is_field else "GH_SCALAR"
            want_type = "GH_REAL" if arg.dtype == "real" else "GH_INTEGER"
            if arg.written:
                if not arg.is_field:
                    want_acc = "GH_SUM"
                elif entry.reads_out:
                    want_acc = "GH_READWRITE"
                else:
                    want_acc = "GH_WRITE"
            else:
                want_acc = "GH_READ"
            if marg[0] != want_kind or marg[1] != want_type or \
                    marg[2] != want_acc:
                raise TableError(
                    f"{name}: argument {pos + 1} is {marg[:3]} in the metadata "
                    f"but ({want_kind}, {want_type}, {want_acc}) by the guide")
            if arg.is_field and (len(marg) != 4 or marg[3] != "ANY_SPACE_1"):
                raise TableError(f"{name}: argument {pos + 1} space {marg}")
    return {"guide_entries": len(guide), "metadata_entries": len(meta)}


def selftest():
    """A few fixed points of the evaluator (harness sanity)."""
    fr = Fraction
    assert reference("X_minus_Y", {"field3": None, "field1": fr(3),
                                   "field2": fr(-2)}) == 5
    assert reference("inc_aX_plus_Y", {"rscalar": fr(1, 2), "field1": fr(3),
                                       "field2": fr(-2)}) == fr(-1, 2)
    assert reference("aX_plus_aY", {"field3": None, "rscalar": fr(3),
                                    "field1": fr(1), "field2": fr(2)}) == 9
    assert reference("sign_X", {"field2": None, "rscalar": fr(-2),
                                "field1": fr(0)}) == 2
    assert reference("sign_X", {"field2": None, "rscalar": fr(3),
                                "field1": fr(-1)}) == -3
    assert reference("real_to_int_X", {"ifield2": None,
                                       "field1": fr(-7, 4)}) == -1
    assert reference("real_to_int_X", {"ifield2": None,
                                       "field1": fr(7, 4)}) == 1
    assert reference("inc_X_powint_n", {"field": fr(-2), "iscalar": fr(3)}) == -8
    assert reference("inc_X_powint_n", {"field": fr(2), "iscalar": fr(-2)}) \
        == fr(1, 4)
    assert reference("inc_X_powreal_a", {"field": fr(9, 4),
                                         "rscalar": fr(1, 2)}) == fr(3, 2)
    for bad in ({"field": fr(0), "rscalar": fr(0)},
                {"field": fr(-1), "rscalar": fr(1, 2)}):
        try:
            reference("inc_X_powreal_a", bad)
            raise AssertionError("expected Undefined")
        except Undefined:
            pass
    try:
        reference("inc_X_powreal_a", {"field": fr(2), "rscalar": fr(1, 2)})
        raise AssertionError("expected Inexact")
    except Inexact:
        pass
    try:
        reference("X_divideby_Y", {"field3": None, "field1": fr(1),
                                   "field2": fr(0)})
        raise AssertionError("expected Undefined")
    except Undefined:
        pass
    assert reference("X_minus_bY", {"field3": None, "field1": fr(1),
                                    "rscalar": fr(3), "field2": fr(2)}) == -5
