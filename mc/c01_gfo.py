"""C01 helper (E2): gfortran batch oracle.

N complete programs (``module tmod`` + ``program tprog``) are put into ONE
file: in program number k the module is renamed ``tmod_k`` and the main program
becomes ``subroutine tprog_k()``; a generated driver calls one (argument k) or
all of them (no argument), printing ``@@BEGIN k`` / ``@@END k`` markers.  The
same mechanical renaming is applied to the original and to the re-written text.

A batch that does not compile is repaired by removing the programs that the
diagnostics point at (line ranges); every removed program is then compiled
ALONE and only that stand-alone verdict is used, so one program can neither
mask nor contaminate another.
"""
import os
import re
import resource
import signal
import subprocess

GFORTRAN = "/usr/bin/gfortran"
#: the flags of the property (-std=f2008 -fimplicit-none) plus run-time
#: bounds checking (so that an undefined original is noticed) and no line limit
#: (the writer does not wrap lines; wrapping is C18's subject)
FLAGS = ["-O0", "-std=f2008", "-fimplicit-none", "-fcheck=bounds",
         "-ffree-line-length-none", "-fno-diagnostics-show-caret",
         "-fdiagnostics-color=never", "-w"]
#: a generated program needs milliseconds of CPU; one that uses more than this
#: does not terminate (verdict).  The wall-clock limit only guards the harness
#: (shared machine): exceeding it is a harness error, never a verdict.
RUN_CPU_LIMIT = 20
RUN_WALL_LIMIT = 3600


def _limit_cpu():
    resource.setrlimit(resource.RLIMIT_CPU, (RUN_CPU_LIMIT, RUN_CPU_LIMIT + 5))


class GfoError(Exception):
    """gfortran could not be run or its output could not be understood."""


def unitize(source, num):
    """Renames module tmod -> tmod_<num> and turns the main program into
    subroutine tprog_<num>() (whole words, case-insensitive)."""
    text = re.sub(r"\btmod\b", f"tmod_{num}", source, flags=re.IGNORECASE)
    text, cnt1 = re.subn(r"(?im)^(\s*)program\s+tprog\s*$",
                         rf"\1subroutine tprog_{num}()", text)
    text, cnt2 = re.subn(r"(?im)^(\s*)end\s*program(\s+tprog)?\s*$",
                         rf"\1end subroutine tprog_{num}", text)
    if cnt1 != 1 or cnt2 != 1:
        return None
    return text


def driver(nums):
    lines = ["program tdriver", "  implicit none",
             "  character(len=16) :: arg", "  integer :: which",
             "  which = -1",
             "  if (command_argument_count() > 0) then",
             "    call get_command_argument(1, arg)",
             "    read (arg, *) which", "  end if"]
    for num in nums:
        lines += [f"  if (which == -1 .or. which == {num}) then",
                  f"    print '(a,i6)', '@@BEGIN', {num}",
                  f"    call tprog_{num}()",
                  f"    print '(a,i6)', '@@END', {num}",
                  "  end if"]
    lines.append("end program tdriver")
    return "\n".join(lines) + "\n"


_LOC = re.compile(r"^(\S*?):(\d+):(\d+):\s*(.*)$")
_ERR = re.compile(r"^(Fatal Error|Error):\s*(.*)$")


def parse_errors(stderr):
    """-> list of (line or None, message)."""
    out = []
    line_no = None
    for raw in stderr.splitlines():
        raw = raw.strip()
        mat = _LOC.match(raw)
        if mat:
            line_no = int(mat.group(2))
            raw = mat.group(4)
            if not raw:
                continue
        mat = _ERR.match(raw)
        if mat:
            out.append((line_no, mat.group(2).strip()))
            continue
        if raw.startswith("f951: ") and "rror" in raw:
            out.append((None, raw.strip()))
    return out


def slug(message):
    """Compiler / run-time message -> stable short class name."""
    low = message.lower()
    low = re.sub(r"at \(\d+\)", "", low)
    low = re.sub(r"['‘’`\"]([^'‘’`\"]*)['‘’`\"]", "X", low)
    low = re.sub(r"\d+", "N", low)
    words = re.findall(r"[a-z]+|X|N", low)
    return "-".join(words)[:60].strip("-")


def _gfortran(args, cwd):
    env = dict(os.environ, TMPDIR=cwd, LC_ALL="C", LANG="C")
    try:
        proc = subprocess.run([GFORTRAN] + FLAGS + args, cwd=cwd, env=env,
                              capture_output=True, text=True, timeout=3600,
                              check=False)
    except (OSError, subprocess.TimeoutExpired) as err:
        raise GfoError(f"cannot run gfortran: {err}") from err
    return proc.returncode, proc.stderr


class Batch:
    """One executable built from many programs."""

    def __init__(self, workdir, tag):
        self.dir = workdir
        self.tag = tag
        self.exe = {}       # num -> path of an executable that contains it
        self.errors = {}    # num -> [messages] (stand-alone verdict)
        self.compiles = 0

    def _write(self, name, texts):
        """texts: {num: unitized text}; returns path, line ranges."""
        path = os.path.join(self.dir, name + ".f90")
        ranges = []
        line = 1
        with open(path, "w", encoding="utf-8") as fout:
            for num in sorted(texts):
                text = texts[num]
                if not text.endswith("\n"):
                    text += "\n"
                count = text.count("\n")
                ranges.append((line, line + count - 1, num))
                fout.write(text)
                line += count
            fout.write(driver(sorted(texts)))
        return path, ranges

    def _compile(self, name, texts):
        path, ranges = self._write(name, texts)
        exe = os.path.join(self.dir, name + ".x")
        code, err = _gfortran([os.path.basename(path), "-o",
                               os.path.basename(exe)], self.dir)
        self.compiles += 1
        for fname in os.listdir(self.dir):
            if fname.endswith(".mod") or fname.endswith(".o"):
                os.remove(os.path.join(self.dir, fname))
        os.remove(path)
        if code == 0:
            return exe, {}
        errs = parse_errors(err)
        if not errs:
            raise GfoError(f"gfortran failed (rc={code}) without a "
                           f"recognisable diagnostic:\n{err[:3000]}")
        per = {}
        for line, msg in errs:
            owner = None
            if line is not None:
                for low, high, num in ranges:
                    if low <= line <= high:
                        owner = num
                        break
            per.setdefault(owner, []).append(msg)
        return None, per

    def build(self, texts):
        """Compiles {num: text}; fills self.exe / self.errors."""
        todo = dict(texts)
        alone = []
        rounds = 0
        while todo:
            rounds += 1
            exe, per = self._compile(f"{self.tag}_{rounds}", todo)
            if exe:
                for num in todo:
                    self.exe[num] = exe
                break
            culprits = [num for num in per if num is not None]
            if not culprits or rounds >= 6:
                alone += list(todo)
                todo = {}
                break
            for num in culprits:
                alone.append(num)
                del todo[num]
        for num in sorted(alone):
            exe, per = self._compile(f"{self.tag}_a{num}", {num: texts[num]})
            if exe:
                self.exe[num] = exe
            else:
                msgs = []
                for owner in sorted(per, key=lambda o: (o is None, o)):
                    msgs += per[owner]
                self.errors[num] = msgs

    def run(self, nums):
        """-> {num: (status, stdout-of-that-program, detail)} with status in
        ok / runtime-error / timeout."""
        out = {}
        by_exe = {}
        for num in nums:
            by_exe.setdefault(self.exe[num], []).append(num)
        for exe, members in by_exe.items():
            res = self._exec(exe, None)
            chunks, ended = _split(res[1])
            if res[0] == "ok" and all(n in ended for n in members):
                for num in members:
                    out[num] = ("ok", chunks[num], "")
                continue
            for num in members:
                if num in ended:
                    out[num] = ("ok", chunks[num], "")
                else:
                    one = self._exec(exe, num)
                    chunks1, ended1 = _split(one[1])
                    status = one[0]
                    if status == "ok" and num not in ended1:
                        status = "runtime-error"
                    out[num] = (status, chunks1.get(num, ""), one[2])
        return out

    def _exec(self, exe, num):
        args = [exe] + ([str(num)] if num is not None else [])
        try:
            proc = subprocess.run(args, cwd=self.dir, capture_output=True,
                                  text=True, timeout=RUN_WALL_LIMIT,
                                  check=False, errors="replace",
                                  preexec_fn=_limit_cpu)
        except subprocess.TimeoutExpired as err:
            raise GfoError(f"{exe} {num}: no result within {RUN_WALL_LIMIT}s "
                           f"of wall time (overloaded machine?)") from err
        except OSError as err:
            raise GfoError(f"cannot run {exe}: {err}") from err
        if proc.returncode in (-signal.SIGXCPU, -signal.SIGKILL):
            return "timeout", proc.stdout, f"more than {RUN_CPU_LIMIT}s of CPU"
        if proc.returncode != 0:
            detail = ""
            for line in proc.stderr.splitlines():
                if "Error" in line or "error" in line:
                    detail = line.strip()
                    break
            return "runtime-error", proc.stdout, detail or f"rc={proc.returncode}"
        return "ok", proc.stdout, ""


def _split(stdout):
    """Splits driver output into per-program chunks; returns (chunks, ended)."""
    chunks = {}
    ended = set()
    cur = None
    buf = []
    for line in stdout.splitlines():
        if line.startswith("@@BEGIN"):
            cur = int(line[7:])
            buf = []
            chunks[cur] = ""
        elif line.startswith("@@END"):
            if cur is not None and int(line[5:]) == cur:
                ended.add(cur)
                chunks[cur] = "\n".join(buf)
            cur = None
        elif cur is not None:
            buf.append(line)
            chunks[cur] = "\n".join(buf)
    return chunks, ended


def split_cases(text):
    """Program output -> list of (CASE line, [lines])."""
    cases = []
    for line in text.splitlines():
        if line.lstrip().startswith("CASE"):
            cases.append((line.strip(), []))
        elif cases:
            cases[-1][1].append(line.rstrip())
        else:
            cases.append(("<before first case>", [line.rstrip()]))
    return cases
