"""C20 Part A machinery: cases, generated LFRic algorithm text, the fixed
Fortran driver (templates below), build and run on the bundled LFRic stub
infrastructure, parsing of the run's output and the expected values.

A *case* is one ``call invoke(name="<id>", <builtin>(args))`` in the generated
algorithm subroutine.  The call sits inside Fortran DO loops over its *inputs*
(pattern 1..2 x every combination of the scalar values), so that one generated
PSy-layer subroutine is executed on the whole value domain; each execution is
preceded by a reset of every field to the pattern and followed by a dump of
every storage the invoke was handed (and of the scalar for a reduction).  Storage (the fields that really exist) lives in the
hand-written module ``c20_util_mod``; the algorithm subroutine receives the
storage through dummy arguments, several dummies for one storage when a case
wants two arguments of a built-in to share their data (``f1``, ``f1b``, ``f1c``
are all storage f1): PSyclone refuses the same *name* twice, but nothing
forbids two field objects with the same data.

Patterns (df = 1..undf; undf = 48 on W0 and 36 on W3, both >= 36):
 1 "pairs"    role1 = V[((df-1)/6) mod 6], role2 = V[(df-1) mod 6],
              V = (-2,-1,0,1,2,3): every pair of values of the first two read
              fields occurs at some DoF; role3 = 1000+df
 2 "distinct" real: role1 = 0.75*df-13.625, role2 = 0.25*df+3, role3 = 2000+df
              integer: role1 = df-18, role2 = 2*df+5, role3 = 2000+df
role1/role2 are given to the storage of the first/second field argument that
the documented formula reads, role3 to a storage that is only written.
"""
import os
import re
import subprocess
from fractions import Fraction

from mc import c20_table as T

MIN_NDOF = 36
VALS = (-2, -1, 0, 1, 2, 3)
REAL_SCALARS = ("-2", "0", "3", "1/2")
INT_SCALARS = ("-2", "0", "3")
FAMILIES = {"f": ("field_type", "real"), "g": ("integer_field_type", "integer"),
            "h": ("r_solver_field_type", "real"),
            "t": ("r_tran_field_type", "real")}
# dummy-argument names of the algorithm subroutine, per family
SUFFIXES = ("", "b", "c")
DUMMIES = [fam + str(idx) + suf for fam in "fght" for idx in (1, 2, 3)
           for suf in SUFFIXES]
SPACES = {"w0": "continuous", "w3": "discontinuous"}


# ---------------------------------------------------------------------------
# patterns (mirrored in c20_reset below)
# ---------------------------------------------------------------------------
def pattern_value(pat, role, dof, is_int):
    if pat == 1:
        if role == 1:
            return Fraction(VALS[((dof - 1) // 6) % 6])
        if role == 2:
            return Fraction(VALS[(dof - 1) % 6])
        return Fraction(1000 + dof)
    if role == 3:
        return Fraction(2000 + dof)
    if is_int:
        return Fraction(dof - 18) if role == 1 else Fraction(2 * dof + 5)
    if role == 1:
        return Fraction(3, 4) * dof - Fraction(109, 8)
    return Fraction(1, 4) * dof + 3


# ---------------------------------------------------------------------------
# cases
# ---------------------------------------------------------------------------
def partitions(num):
    """Set partitions of range(num) as restricted-growth tuples."""
    out = [()]
    for _ in range(num):
        out = [p + (k,) for p in out for k in range((max(p) + 1 if p else 0) + 1)]
    return out


def field_families(entry, variant):
    """Family letter of every field argument.  variant 'd' = default
    (r_def / integer fields); 'h' = real fields are r_solver_field_type;
    conversion variants are spelt out ('hf' = out h, in f, ...)."""
    fams = []
    for pos, arg in enumerate(entry.fields):
        if arg.dtype == "integer":
            fams.append("g")
        elif len(variant) == 2:
            fams.append(variant[pos])
        else:
            fams.append("f" if variant == "d" else variant)
    return fams


def family_variants(entry, tier):
    name = entry.name
    if name == "real_to_real_X":
        return ["hf", "fh", "th", "ff"]
    if name == "real_to_int_X":
        return ["gf", "gh"] if tier == "thorough" else ["gf"]
    if name == "int_to_real_X":
        return ["fg", "hg"] if tier == "thorough" else ["fg"]
    if entry.is_reduction or name.startswith("int_"):
        return ["d"]          # global sums are documented as r_def only
    return ["d", "h"] if tier == "thorough" else ["d"]


def build_case(entry, variant, part, lit):
    """A case dict (JSON-able) for one invoke.  `lit`: None (scalars are passed
    as variables and looped over at run time) or the tuple of scalar values
    that are written as literals in the invoke call."""
    fams = field_families(entry, variant)
    fields = entry.fields
    # role of every alias class: classes that the formula reads get 1, 2 in
    # order of their first read position, a class that is only written gets 3
    role = {}
    for pos, arg in enumerate(fields):
        is_read = (not arg.written) or entry.reads_out
        if is_read and part[pos] not in role:
            role[part[pos]] = len(role) + 1
    for pos in range(len(fields)):
        if part[pos] not in role:
            role[part[pos]] = 3
    used = {}
    actual = {}
    for pos, arg in enumerate(fields):
        sto = fams[pos] + str(role[part[pos]])
        nth = used.get(sto, 0)
        used[sto] = nth + 1
        actual[arg.name] = (sto, sto + SUFFIXES[nth])
    return {"builtin": entry.name, "variant": variant, "part": list(part),
            "lit": list(lit) if lit is not None else None,
            "sto": {k: v[0] for k, v in actual.items()},
            "dummy": {k: v[1] for k, v in actual.items()}}


def case_tag(case):
    """Configuration-independent description of the case (used in sigs)."""
    bits = []
    if case["variant"] != "d":
        bits.append("kind=" + case["variant"])
    if len(set(case["part"])) != len(case["part"]):
        bits.append("alias=" + "".join(str(p) for p in case["part"]))
    if case["lit"] is not None:
        bits.append("literal=" + "_".join(case["lit"]))
    return ",".join(bits) or "plain"


def legal_partition(entry, fams, part):
    """Arguments may share data only if they are of the same family."""
    for i in range(len(part)):
        for j in range(i + 1, len(part)):
            if part[i] == part[j] and fams[i] != fams[j]:
                return False
    return True


def scalar_domain(arg):
    return REAL_SCALARS if arg.dtype == "real" else INT_SCALARS


def product(domains):
    out = [()]
    for dom in domains:
        out = [p + (v,) for p in out for v in dom]
    return out


LITERALS = {1: [("-2",), ("1/2",)], 2: [("3", "-2"), ("-2", "1/2")]}
INT_LITERALS = {1: [("-2",), ("3",)]}


def enumerate_cases(name, tier, level):
    """All cases (invokes) of one built-in.  level 'lean': the plain invoke
    (distinct arguments, scalars as variables) per family variant; level
    'full' adds every alias partition and the literal-scalar invokes."""
    entry = T.ENTRIES[name]
    out = []
    nscal = len(entry.scalars_read)
    ident = tuple(range(len(entry.fields)))
    for variant in family_variants(entry, tier):
        fams = field_families(entry, variant)
        out.append(build_case(entry, variant, ident, None))
        if level == "lean":
            continue
        if nscal and variant in ("d", "gf", "fg", "hf"):
            table = INT_LITERALS if entry.scalars_read[0].dtype == "integer" \
                else LITERALS
            for lit in table[nscal][:2 if tier == "thorough" else 1]:
                out.append(build_case(entry, variant, ident, lit))
        for part in partitions(len(entry.fields)):
            if part == ident or not legal_partition(entry, fams, part):
                continue
            out.append(build_case(entry, variant, part, None))
    return out


def case_inputs(case):
    """The inputs one case is executed on: list of (code, pattern, scalar
    values); code = 100*pattern + 10*i1 + i2 (indices into the scalar
    domains, 0 when absent) is what the driver prints."""
    entry = T.ENTRIES[case["builtin"]]
    out = []
    for pat in (1, 2):
        if case["lit"] is not None:
            out.append((100 * pat, pat, tuple(case["lit"])))
            continue
        doms = [scalar_domain(a) for a in entry.scalars_read]
        if len(doms) > 2:
            raise T.TableError("more than two scalars")
        for combo in product([list(enumerate(d, 1)) for d in doms]):
            code = 100 * pat + sum(idx * (10 if pos == 0 else 1)
                                   for pos, (idx, _) in enumerate(combo))
            out.append((code, pat, tuple(v for _, v in combo)))
    return out


# ---------------------------------------------------------------------------
# expected values
# ---------------------------------------------------------------------------
def frac(text):
    return Fraction(text)


def initial(pat, sto, dof):
    return pattern_value(pat, int(sto[1]), dof, sto[0] == "g")


def expected(case, pat, scalars, ndof):
    """{'sto': {storage: [per DoF Fraction | None (not judged)]},
        'scalar': Fraction | None, 'skipped': n, 'random': storage | None}"""
    entry = T.ENTRIES[case["builtin"]]
    stos = sorted(set(case["sto"].values()))
    res = {"sto": {s: [initial(pat, s, d) for d in range(1, ndof + 1)]
                   for s in stos},
           "scalar": None, "skipped": 0, "random": None}
    if entry.name == T.RANDOM:
        res["random"] = case["sto"][entry.out.name]
        return res
    scal = {a.name: frac(v) for a, v in zip(entry.scalars_read, scalars)}
    total = Fraction(0)
    outvals = []
    for dof in range(1, ndof + 1):
        env = dict(scal)
        for arg in entry.fields:
            if arg.written and not entry.reads_out:
                env[arg.name] = None
            else:
                env[arg.name] = initial(pat, case["sto"][arg.name], dof)
        if not entry.out.is_field:
            env[entry.out.name] = None
        try:
            val = T.reference(entry.name, env)
        except (T.Undefined, T.Inexact):
            if entry.is_reduction:
                raise T.TableError("undefined term in a reduction")
            val = None
            res["skipped"] += 1
        if entry.is_reduction:
            total += val
        else:
            outvals.append(val)
    if entry.is_reduction:
        res["scalar"] = total
    else:
        res["sto"][case["sto"][entry.out.name]] = outvals
    return res


def representable(val, is_int):
    """The machine value the exact result must be stored as: the correctly
    rounded double (one rounding: every documented formula has at most one
    inexact operation, the final division, on the domain used) or the
    integer."""
    if is_int:
        if val.denominator != 1:
            raise T.TableError(f"integer result expected, got {val}")
        return int(val)
    return float(val)        # float(Fraction) is correctly rounded


# ---------------------------------------------------------------------------
# Fortran text
# ---------------------------------------------------------------------------
def real_lit(text):
    val = Fraction(text)
    sign = "-" if val < 0 else ""
    return f"{sign}{float(abs(val))!r}_r_def"


def int_lit(text):
    val = Fraction(text)
    return f"{int(val)}_i_def"


def algorithm_text(cases):
    """The algorithm module handed to PSyclone.  `cases`: list of
    (case id, case dict)."""
    lines = ["module c20_alg_mod",
             "  use constants_mod, only: r_def, i_def, r_solver, r_tran",
             "  use field_mod, only: field_type",
             "  use integer_field_mod, only: integer_field_type",
             "  use r_solver_field_mod, only: r_solver_field_type",
             "  use r_tran_field_mod, only: r_tran_field_type",
             "  use c20_util_mod, only: c20_reset, c20_dump, c20_dump_scalar",
             "  implicit none",
             "contains",
             "  subroutine c20_alg(" + ", &\n      ".join(
                 ", ".join(DUMMIES[i:i + 9]) for i in range(0, len(DUMMIES), 9))
             + ")"]
    for fam, (typ, _) in FAMILIES.items():
        names = [d for d in DUMMIES if d[0] == fam]
        lines.append(f"    type({typ}), intent(in) :: " + ", ".join(names))
    lines += ["    real(kind=r_def) :: ra, rb, rs",
              "    integer(kind=i_def) :: ia, ib",
              "    integer :: ipat, i1, i2",
              "    real(kind=r_def), parameter :: rvals(4) = (/ "
              + ", ".join(real_lit(v) for v in REAL_SCALARS) + " /)",
              "    integer(kind=i_def), parameter :: ivals(3) = (/ "
              + ", ".join(int_lit(v) for v in INT_SCALARS) + " /)"]
    for cid, case in cases:
        entry = T.ENTRIES[case["builtin"]]
        lines.append(f"    ! {cid}: {entry.name} {case_tag(case)}")
        actuals = []
        setup = []
        loops = []
        nreal = nint = 0
        lit = iter(case["lit"] or [])
        for arg in entry.args:
            if arg.is_field:
                actuals.append(case["dummy"][arg.name])
            elif arg.written:
                setup.append("rs = 12345.0_r_def")
                actuals.append("rs")
            elif case["lit"] is not None:
                val = next(lit)
                actuals.append(real_lit(val) if arg.dtype == "real"
                               else int_lit(val))
            else:
                idx = f"i{len(loops) + 1}"
                loops.append((idx, len(scalar_domain(arg))))
                if arg.dtype == "real":
                    var = ("ra", "rb")[nreal]
                    nreal += 1
                    setup.append(f"{var} = rvals({idx})")
                else:
                    var = ("ia", "ib")[nint]
                    nint += 1
                    setup.append(f"{var} = ivals({idx})")
                actuals.append(var)
        code = "100*ipat" + "".join(
            f" + {10 if pos == 0 else 1}*{idx}"
            for pos, (idx, _) in enumerate(loops))
        stos = " ".join(sorted(set(case["sto"].values())))
        lines.append("    do ipat = 1, 2")
        for idx, num in loops:
            lines.append(f"    do {idx} = 1, {num}")
        lines.append("      call c20_reset(ipat)")
        lines += ["      " + line for line in setup]
        lines.append(f"      call invoke(name=\"{cid}\", "
                     f"{entry.name}({', '.join(actuals)}))")
        lines.append(f"      call c20_dump(\"{cid}\", {code}, \"{stos}\")")
        if entry.is_reduction:
            lines.append(f"      call c20_dump_scalar(\"{cid}\", {code}, rs)")
        for _ in loops:
            lines.append("    end do")
        lines.append("    end do")
    lines += ["  end subroutine c20_alg", "end module c20_alg_mod", ""]
    return "\n".join(lines)


def _util_decls():
    out = []
    for fam, (typ, _) in FAMILIES.items():
        out.append(f"  type({typ}), public, target :: "
                   + ", ".join(f"s{fam}{i}" for i in (1, 2, 3)))
    return "\n".join(out)


def _util_init():
    out = []
    for fam in FAMILIES:
        for idx in (1, 2, 3):
            out.append(f"    call s{fam}{idx}%initialise(vector_space="
                       f"vector_space_ptr, name=\"{fam}{idx}\")")
    return "\n".join(out)


def _util_reset():
    out = []
    for fam, (typ, dtyp) in FAMILIES.items():
        prox = typ.replace("_type", "_proxy_type")
        for idx in (1, 2, 3):
            out.append(f"    call set_{fam}(s{fam}{idx}, pat, {idx})")
    return "\n".join(out)


def _util_setters():
    out = []
    for fam, (typ, dtyp) in FAMILIES.items():
        prox = typ.replace("_type", "_proxy_type")
        if dtyp == "integer":
            body = """      select case (10*pat + role)
      case (11)
        p%data(df) = mod((df-1)/6, 6) - 2
      case (12)
        p%data(df) = mod(df-1, 6) - 2
      case (13)
        p%data(df) = 1000 + df
      case (21)
        p%data(df) = df - 18
      case (22)
        p%data(df) = 2*df + 5
      case default
        p%data(df) = 2000 + df
      end select"""
        else:
            body = """      select case (10*pat + role)
      case (11)
        p%data(df) = real(mod((df-1)/6, 6) - 2, r_def)
      case (12)
        p%data(df) = real(mod(df-1, 6) - 2, r_def)
      case (13)
        p%data(df) = real(1000 + df, r_def)
      case (21)
        p%data(df) = 0.75_r_def*real(df, r_def) - 13.625_r_def
      case (22)
        p%data(df) = 0.25_r_def*real(df, r_def) + 3.0_r_def
      case default
        p%data(df) = real(2000 + df, r_def)
      end select"""
        fmt = "*(1X,I0)" if dtyp == "integer" else "*(1X,ES24.16E3)"
        out.append(f"""  subroutine set_{fam}(fld, pat, role)
    type({typ}), intent(in) :: fld
    integer, intent(in) :: pat, role
    type({prox}) :: p
    integer :: df
    p = fld%get_proxy()
    do df = 1, size(p%data)
{body}
    end do
  end subroutine set_{fam}
  subroutine dump_{fam}(label, code, name, fld)
    character(len=*), intent(in) :: label, name
    integer, intent(in) :: code
    type({typ}), intent(in) :: fld
    type({prox}) :: p
    p = fld%get_proxy()
    write(*, '(A,1X,A,1X,I0,1X,A,{fmt})') "FLD", label, code, name, p%data
  end subroutine dump_{fam}""")
    return "\n".join(out)


def _util_dump():
    out = []
    for fam in FAMILIES:
        for idx in (1, 2, 3):
            out.append(f"    if (index(which, \"{fam}{idx}\") > 0) "
                       f"call dump_{fam}(label, code, \"{fam}{idx}\", s{fam}{idx})")
    return "\n".join(out)


def util_text():
    """The hand-written part of the driver: mesh / function space / field
    set-up copied from examples/lfric/eg17/full_example, reset and dump."""
    return f"""module c20_util_mod
  use constants_mod,          only: r_def, i_def
  use global_mesh_base_mod,   only: global_mesh_base_type
  use mesh_mod,               only: mesh_type
  use partition_mod,          only: partition_type, partitioner_planar, &
                                    partitioner_interface
  use extrusion_mod,          only: uniform_extrusion_type
  use function_space_mod,     only: function_space_type
  use fs_continuity_mod,      only: W0, W3
  use field_mod,              only: field_type, field_proxy_type
  use integer_field_mod,      only: integer_field_type, integer_field_proxy_type
  use r_solver_field_mod,     only: r_solver_field_type, r_solver_field_proxy_type
  use r_tran_field_mod,       only: r_tran_field_type, r_tran_field_proxy_type
  implicit none
  private
  type(global_mesh_base_type), target        :: global_mesh
  class(global_mesh_base_type), pointer      :: global_mesh_ptr
  type(partition_type)                       :: partition
  type(mesh_type), target                    :: mesh
  type(uniform_extrusion_type), target       :: extrusion
  type(uniform_extrusion_type), pointer      :: extrusion_ptr
  type(function_space_type), target          :: vector_space
  type(function_space_type), pointer         :: vector_space_ptr
  procedure (partitioner_interface), pointer :: partitioner_ptr
{_util_decls()}
  public :: c20_init, c20_reset, c20_dump, c20_dump_scalar
contains
  subroutine c20_init(space)
    character(len=*), intent(in) :: space
    integer(kind=i_def) :: lfric_fs, element_order, ndata_sz, nlayers
    type(field_proxy_type) :: p
    element_order = 0
    if (space == "w3") then
      lfric_fs = W3
      nlayers = 4
    else
      lfric_fs = W0
      nlayers = 2
    end if
    global_mesh = global_mesh_base_type()
    global_mesh_ptr => global_mesh
    partitioner_ptr => partitioner_planar
    partition = partition_type(global_mesh_ptr, partitioner_ptr, 1, 1, 0, 0, 1)
    extrusion = uniform_extrusion_type(0.0_r_def, 100.0_r_def, nlayers)
    extrusion_ptr => extrusion
    mesh = mesh_type(global_mesh_ptr, partition, extrusion_ptr)
    ndata_sz = 1
    vector_space = function_space_type(mesh, element_order, lfric_fs, ndata_sz)
    vector_space_ptr => vector_space
{_util_init()}
    p = sf1%get_proxy()
    write(*, '(A,4(1X,I0))') "UNDF", size(p%data), p%vspace%get_undf(), &
        p%vspace%get_last_dof_owned(), p%vspace%get_last_dof_annexed()
  end subroutine c20_init
  subroutine c20_reset(pat)
    integer, intent(in) :: pat
{_util_reset()}
  end subroutine c20_reset
  subroutine c20_dump(label, code, which)
    character(len=*), intent(in) :: label, which
    integer, intent(in) :: code
{_util_dump()}
  end subroutine c20_dump
  subroutine c20_dump_scalar(label, code, val)
    character(len=*), intent(in) :: label
    integer, intent(in) :: code
    real(kind=r_def), intent(in) :: val
    write(*, '(A,1X,A,1X,I0,1X,ES24.16E3)') "SCA", label, code, val
  end subroutine c20_dump_scalar
{_util_setters()}
end module c20_util_mod
"""


def main_text(nvariants):
    """The main program: sets the space up, then runs the generated algorithm
    of every variant named in the second command-line argument ("1,3,4")."""
    actual = ", &\n        ".join(
        ", ".join("s" + d[:2] for d in DUMMIES[i:i + 9])
        for i in range(0, len(DUMMIES), 9))
    uses = "\n".join(f"  use c20_alg_mod_v{k}, only: c20_alg_v{k}"
                     for k in range(1, nvariants + 1))
    calls = "\n".join(
        f"  if (index(which, \",{k},\") > 0) then\n"
        f"    write(*, '(A,1X,I0)') \"VAR\", {k}\n"
        f"    call c20_alg_v{k}({actual})\n  end if"
        for k in range(1, nvariants + 1))
    return f"""program c20_main
  use c20_util_mod
{uses}
  implicit none
  character(len=16) :: space
  character(len=64) :: arg, which
  call get_command_argument(1, space)
  call get_command_argument(2, arg)
  which = "," // trim(arg) // ","
  call c20_init(trim(space))
{calls}
  write(*, '(A)') "DONE"
end program c20_main
"""


_RENAMES = [(re.compile(r"\bc20_alg_mod_psy\b", re.I), "c20_alg_mod_psy_v{k}"),
            (re.compile(r"\bc20_alg_mod\b", re.I), "c20_alg_mod_v{k}"),
            (re.compile(r"\bc20_alg\b", re.I), "c20_alg_v{k}")]


def rename_variant(text, k):
    """Module / subroutine names of one generated (algorithm, PSy layer) pair
    get the suffix _v<k>, so that several configurations of the same
    algorithm can be linked into one program."""
    for rex, repl in _RENAMES:
        text = rex.sub(repl.format(k=k), text)
    return text


# ---------------------------------------------------------------------------
# build and run
# ---------------------------------------------------------------------------
class BuildError(Exception):
    """gfortran / make failed."""

    def __init__(self, what, output):
        super().__init__(f"{what}\n{output[-3000:]}")
        self.what = what
        self.output = output


def _run(cmd, cwd, env=None, timeout=600):
    proc = subprocess.run(cmd, cwd=cwd, env=env, stdout=subprocess.PIPE,
                          stderr=subprocess.STDOUT, timeout=timeout,
                          check=False)
    return proc.returncode, proc.stdout.decode("utf-8", "replace")


def infra_source(repo):
    return os.path.join(repo, "src", "psyclone", "tests", "test_files",
                        "dynamo0p3", "infrastructure")


def build_infrastructure(repo, directory, jobs=4):
    """liblfric.a + .mod files, out of tree; returns the include flags."""
    os.makedirs(directory, exist_ok=True)
    code, out = _run(["make", f"-j{jobs}", "-f",
                      os.path.join(infra_source(repo), "Makefile"),
                      "F90FLAGS=-O0"], cwd=directory, timeout=1800)
    if code != 0 or not os.path.exists(os.path.join(directory, "liblfric.a")):
        raise BuildError("LFRic stub infrastructure did not build", out)
    return include_flags(directory)


def include_flags(directory):
    return ["-I" + os.path.join(directory, d) for d in sorted(os.listdir(directory))
            if os.path.isdir(os.path.join(directory, d))]


FFLAGS = ["-O0", "-ffree-line-length-none", "-fcheck=bounds"]


def build_util(infra, directory):
    """Compiles the fixed part of the driver (c20_util_mod) once; returns the
    directory holding the object and the .mod file."""
    os.makedirs(directory, exist_ok=True)
    with open(os.path.join(directory, "c20_util_mod.f90"), "w",
              encoding="utf-8") as fout:
        fout.write(util_text())
    code, out = _run(["gfortran", "-c"] + FFLAGS + include_flags(infra)
                     + ["c20_util_mod.f90"], cwd=directory)
    if code != 0:
        raise BuildError("c20_util_mod.f90 did not compile", out)
    return directory


def compile_program(infra, util, directory, variants, openmp):
    """`variants`: [(algorithm text, PSy-layer text)] as generated; variant k
    (1-based) is renamed with suffix _v<k>; all of them are compiled into one
    executable.  Returns (exe path | None, stage that failed | None, compiler
    output)."""
    os.makedirs(directory, exist_ok=True)
    texts = {"psy.f90": "\n".join(rename_variant(psy, k)
                                  for k, (_, psy) in enumerate(variants, 1)),
             "alg.f90": "\n".join(rename_variant(alg, k)
                                  for k, (alg, _) in enumerate(variants, 1)),
             "main.f90": main_text(len(variants))}
    flags = FFLAGS + (["-fopenmp"] if openmp else []) + include_flags(infra) \
        + ["-I" + util]
    for name in ("psy.f90", "alg.f90", "main.f90"):
        with open(os.path.join(directory, name), "w", encoding="utf-8") as fout:
            fout.write(texts[name])
        code, out = _run(["gfortran", "-c"] + flags + [name], cwd=directory)
        if code != 0:
            return None, name, out
    code, out = _run(["gfortran"] + (["-fopenmp"] if openmp else [])
                     + ["main.o", "alg.o", "psy.o",
                        os.path.join(util, "c20_util_mod.o"),
                        "-L" + infra, "-llfric", "-o", "c20.exe"], cwd=directory)
    if code != 0:
        return None, "link", out
    return os.path.join(directory, "c20.exe"), None, ""


def run_program(exe, space, threads, which):
    """Runs the variants `which` (1-based numbers) of the program."""
    env = dict(os.environ)
    env["OMP_NUM_THREADS"] = str(threads)
    env["OMP_DYNAMIC"] = "false"
    env["OMP_WAIT_POLICY"] = "passive"     # no spinning on a shared machine
    code, out = _run([exe, space, ",".join(str(k) for k in which)],
                     cwd=os.path.dirname(exe), env=env, timeout=900)
    return code, out


def parse_output(text):
    """-> (undf tuple, {variant: ({(case, input code, storage): [text values]},
    {(case, input code): text value})}, completed?)"""
    undf = None
    out = {}
    flds = scas = None
    done = False
    for line in text.splitlines():
        bits = line.split()
        if not bits:
            continue
        if bits[0] == "FLD":
            flds[(bits[1], int(bits[2]), bits[3])] = bits[4:]
        elif bits[0] == "SCA":
            scas[(bits[1], int(bits[2]))] = bits[3]
        elif bits[0] == "VAR":
            flds, scas = {}, {}
            out[int(bits[1])] = (flds, scas)
        elif bits[0] == "UNDF":
            undf = tuple(int(b) for b in bits[1:])
        elif bits[0] == "DONE":
            done = True
    return undf, out, done


_NUM = re.compile(r"^[-+]?(\d+\.?\d*([eE][-+]?\d+)?|Infinity|NaN|Inf)$", re.I)


def to_number(text, is_int):
    if is_int:
        return int(text)
    if not _NUM.match(text):
        raise ValueError(f"unreadable real '{text}'")
    return float(text)
