"""C04 helper: programs that can only be built through the PSyIR API.

B1 "order":  symbol tables whose entries were ADDED in every possible order: for
    every dependency-closed subset (<= K entities) of a pool of entities that
    depend on each other through kind parameters, array bounds, initial values
    and derived-type components, every permutation of the insertion order, in a
    routine-level table and in a module-level table.

B2 "scopes": a routine with nested Schedules (routine > loop body > if body /
    else body, inside a module) in which every combination of (scope, name)
    over a small alphabet of clashing names carries its own symbol.  Every
    scope assigns to its own symbols and reads every symbol visible from it, so
    that a captured reference changes the written text.  Built in a colliding
    and in a neutral (all names unique) variant.
"""
import itertools

# ---------------------------------------------------------------------------
# B1
# ---------------------------------------------------------------------------
# name -> (kind, dependencies, scopes in which it can live)
POOL = {
    "kp": ("param", [], "rm"),
    "n0": ("param", [], "rm"),
    "n1": ("param", ["n0"], "rm"),
    "c0": ("param", ["kp"], "rm"),
    "c2": ("param", ["kp"], "rm"),
    # constants of kind kp whose initial value contains NO literal
    "rr": ("param", ["kp", "n0"], "rm"),
    "rn": ("param", ["kp", "n0"], "rm"),
    "rp": ("param", ["kp", "n0", "n1"], "rm"),
    "v0": ("param", ["n0"], "rm"),
    "x0": ("local", ["kp"], "rm"),
    "w0": ("local", ["n1"], "rm"),
    "ch": ("local", ["n0"], "rm"),
    "na": ("arg", [], "r"),
    "a0": ("arg", ["na"], "r"),
    "b0": ("arg", ["n0"], "r"),
    "w1": ("local", ["na"], "r"),
    "tt": ("type", [], "rm"),
    "uu": ("type", ["tt", "n0"], "rm"),
    "z0": ("local", ["uu"], "rm"),
}
POOL_ORDER = list(POOL)
MAX_ENTITIES = {"quick": 4, "thorough": 5}


def order_specs(tier):
    """-> list of (scope, subset tuple); size-ordered; quick is a prefix-closed
    subset of thorough."""
    out = []
    for scope in "rm":
        names = [n for n in POOL_ORDER if scope in POOL[n][2]]
        for size in range(2, MAX_ENTITIES[tier] + 1):
            for subset in itertools.combinations(names, size):
                sset = set(subset)
                if any(d not in sset for n in subset for d in POOL[n][1]):
                    continue
                if not any(POOL[n][1] for n in subset):
                    continue
                out.append((scope, subset))
    return out


def order_perms(subset):
    return list(itertools.permutations(range(len(subset))))


#: name the kind parameter gets in the "rename" variant
RENAMED_KIND = "kq"


def order_items(tier):
    """-> list of [scope, subset, perm, rename]: every insertion order of every
    subset, plus - for the orders that add the kind parameter `kp` FIRST - a
    variant in which `kp` is afterwards renamed with SymbolTable.rename_symbol,
    which re-inserts it at the END of the table (behind its users)."""
    items = []
    for scope, subset in order_specs(tier):
        for perm in order_perms(subset):
            items.append([scope, list(subset), list(perm), False])
            if subset[perm[0]] == "kp":
                items.append([scope, list(subset), list(perm), True])
    return items


def build_order(scope, subset, perm, rename=False):
    """Builds the PSyIR: entities are created first (so that they can refer to
    each other), then ADDED to the table in the order given by perm; with
    `rename` the kind parameter is finally renamed (moved to the end)."""
    # pylint: disable=import-outside-toplevel,too-many-locals
    from psyclone.psyir.nodes import (BinaryOperation, Container, Literal,
                                      Reference, Routine, UnaryOperation)
    from psyclone.psyir.symbols import (
        ArgumentInterface, ArrayType, CHARACTER_TYPE, DataSymbol,
        DataTypeSymbol, INTEGER_TYPE, REAL_TYPE, ScalarType, StructureType,
        Symbol, SymbolTable)
    syms = {}

    def lit(val):
        return Literal(val, INTEGER_TYPE)

    def make(name):
        if name in syms:
            return syms[name]
        for dep in POOL[name][1]:
            if dep in subset:
                make(dep)
        pub = Symbol.Visibility.PUBLIC
        if name == "kp":
            sym = DataSymbol("kp", INTEGER_TYPE, is_constant=True,
                             initial_value=lit("8"))
        elif name == "n0":
            sym = DataSymbol("n0", INTEGER_TYPE, is_constant=True,
                             initial_value=lit("3"))
        elif name == "n1":
            sym = DataSymbol("n1", INTEGER_TYPE, is_constant=True,
                             initial_value=BinaryOperation.create(
                                 BinaryOperation.Operator.MUL,
                                 Reference(syms["n0"]), lit("2")))
        elif name == "c0":
            rkp = ScalarType(ScalarType.Intrinsic.REAL, syms["kp"])
            sym = DataSymbol("c0", rkp, is_constant=True,
                             initial_value=Literal("1.0", rkp))
        elif name == "c2":
            # the kind is only used by the type, not by the initial value
            rkp = ScalarType(ScalarType.Intrinsic.REAL, syms["kp"])
            sym = DataSymbol("c2", rkp, is_constant=True,
                             initial_value=Literal("2.0", REAL_TYPE))
        elif name == "rr":
            # plain reference to another constant
            rkp = ScalarType(ScalarType.Intrinsic.REAL, syms["kp"])
            sym = DataSymbol("rr", rkp, is_constant=True,
                             initial_value=Reference(syms["n0"]))
        elif name == "rn":
            # unary minus of another constant
            rkp = ScalarType(ScalarType.Intrinsic.REAL, syms["kp"])
            sym = DataSymbol("rn", rkp, is_constant=True,
                             initial_value=UnaryOperation.create(
                                 UnaryOperation.Operator.MINUS,
                                 Reference(syms["n0"])))
        elif name == "rp":
            # product of two constants
            rkp = ScalarType(ScalarType.Intrinsic.REAL, syms["kp"])
            sym = DataSymbol("rp", rkp, is_constant=True,
                             initial_value=BinaryOperation.create(
                                 BinaryOperation.Operator.MUL,
                                 Reference(syms["n0"]),
                                 Reference(syms["n1"])))
        elif name == "v0":
            sym = DataSymbol("v0", ArrayType(INTEGER_TYPE,
                                             [Reference(syms["n0"])]),
                             is_constant=True, initial_value=lit("0"))
        elif name == "x0":
            sym = DataSymbol("x0", ScalarType(ScalarType.Intrinsic.REAL,
                                              syms["kp"]))
        elif name == "w0":
            sym = DataSymbol("w0", ArrayType(REAL_TYPE,
                                             [Reference(syms["n1"])]))
        elif name == "ch":
            sym = DataSymbol("ch", ArrayType(CHARACTER_TYPE,
                                             [Reference(syms["n0"])]))
        elif name == "na":
            sym = DataSymbol("na", INTEGER_TYPE, interface=ArgumentInterface(
                ArgumentInterface.Access.READ))
        elif name == "a0":
            sym = DataSymbol("a0", ArrayType(REAL_TYPE,
                                             [Reference(syms["na"])]),
                             interface=ArgumentInterface(
                                 ArgumentInterface.Access.READWRITE))
        elif name == "b0":
            sym = DataSymbol("b0", ArrayType(REAL_TYPE,
                                             [Reference(syms["n0"])]),
                             interface=ArgumentInterface(
                                 ArgumentInterface.Access.READWRITE))
        elif name == "w1":
            sym = DataSymbol("w1", ArrayType(REAL_TYPE,
                                             [Reference(syms["na"])]))
        elif name == "tt":
            sym = DataTypeSymbol("tt", StructureType.create(
                [("k", INTEGER_TYPE, pub, None)]))
        elif name == "uu":
            sym = DataTypeSymbol("uu", StructureType.create(
                [("inner", syms["tt"], pub, None),
                 ("arr", ArrayType(REAL_TYPE, [Reference(syms["n0"])]), pub,
                  None)]))
        elif name == "z0":
            sym = DataSymbol("z0", syms["uu"])
        else:
            raise KeyError(name)
        syms[name] = sym
        return sym

    for name in subset:
        make(name)
    table = SymbolTable()
    for idx in perm:
        table.add(syms[subset[idx]])
    if rename:
        table.rename_symbol(syms["kp"], RENAMED_KIND)
    if scope == "r":
        args = [syms[n] for n in subset if POOL[n][0] == "arg"]
        table.specify_argument_list(args)
        return Routine.create("c04s", table, [])
    return Container.create("c04m", table, [])


def order_key(scope, subset, perm, rename=False):
    return f"ord:{scope}:" + ",".join(subset[i] for i in perm) + \
        ("+rename(kp)" if rename else "")


# ---------------------------------------------------------------------------
# B2
# ---------------------------------------------------------------------------
SCOPES = ["M", "R", "L", "I1", "I2"]
SCOPE_NAMES = {"quick": ["x", "x_1"], "thorough": ["x", "x_1", "x_2"]}
#: the third name of the thorough tier only lives in these scopes
THIRD_NAME_SCOPES = ["R", "L", "I1"]
_PARENT = {"R": "M", "L": "R", "I1": "L", "I2": "L", "M": None}

SKELETON = """
module c04m
  implicit none
contains
  subroutine c04s(a, n)
    integer, intent(in) :: n
    real, intent(inout) :: a(n)
    integer :: i
    do i = 1, n
      if (a(i) > 0.0) then
        a(i) = 0.5
      else
        a(i) = 1.5
      end if
      a(i) = a(i) + 2.5
    end do
    a(1) = a(1) + 3.5
  end subroutine c04s
end module c04m
"""


def scope_slots(tier):
    """The (scope, name) pairs that may carry a symbol; the quick slots are
    the first ones of the thorough list, so a quick configuration has the same
    index in both tiers."""
    slots = [(scope, name) for name in SCOPE_NAMES["quick"]
             for scope in SCOPES]
    if tier == "thorough":
        slots += [(scope, "x_2") for scope in THIRD_NAME_SCOPES]
    return slots


def scope_count(tier):
    return 1 << len(scope_slots(tier))


def scope_config(tier, index):
    """index -> list of (scope, name) pairs that carry a symbol."""
    return [slot for bit, slot in enumerate(scope_slots(tier))
            if index >> bit & 1]


def scope_index(config):
    """Inverse of scope_config (thorough numbering, valid for both tiers)."""
    slots = scope_slots("thorough")
    index = 0
    for pair in config:
        index |= 1 << slots.index(tuple(pair))
    return index


_READER = []


def build_scopes(config, variant):
    """-> root PSyIR node."""
    # pylint: disable=import-outside-toplevel,too-many-locals
    from fparser.common.readfortran import FortranStringReader
    from fparser.common.sourceinfo import FortranFormat
    from fparser.two.parser import ParserFactory
    from fparser.two.symbol_table import SYMBOL_TABLES
    from psyclone.psyir.frontend.fparser2 import Fparser2Reader
    from psyclone.psyir.nodes import (Assignment, BinaryOperation, IfBlock,
                                      Literal, Loop, Reference, Routine,
                                      ArrayReference)
    from psyclone.psyir.symbols import DataSymbol, INTEGER_TYPE, REAL_TYPE
    if not _READER:
        # the skeleton is only scaffolding: its fparser2 parse tree is made
        # once per process (as FortranReader does it) and a NEW PSyIR tree is
        # generated from it for every configuration
        SYMBOL_TABLES.clear()
        reader = FortranStringReader(SKELETON)
        reader.set_format(FortranFormat(True, False))
        _READER.append(ParserFactory().create(std="f2008")(reader))
    psyir = Fparser2Reader().generate_psyir(_READER[0])
    routine = psyir.walk(Routine)[0]
    loop = routine.walk(Loop)[0]
    ifb = routine.walk(IfBlock)[0]
    scheds = {"M": None, "R": routine, "L": loop.loop_body,
              "I1": ifb.if_body, "I2": ifb.else_body}
    tables = {"M": routine.parent.symbol_table}
    for key, sched in scheds.items():
        if sched is not None:
            tables[key] = sched.symbol_table
    arr = routine.symbol_table.lookup("a")
    syms = {}
    # outermost scopes first so that shadowing is what is being requested
    for scope in SCOPES:
        for (scp, name) in config:
            if scp != scope:
                continue
            real = name if variant == "c" else \
                f"q{scope.lower()}{name.replace('_', '')}"
            sym = tables[scope].new_symbol(
                real, shadowing=True, symbol_type=DataSymbol,
                datatype=REAL_TYPE)
            if sym.name != real:
                raise RuntimeError(f"wanted '{real}', got '{sym.name}'")
            syms[(scope, name)] = sym
    names = sorted(set(name for _s, name in config))
    value = [0]

    def visible(scope, name):
        cur = scope
        while cur is not None:
            if (cur, name) in syms:
                return syms[(cur, name)]
            cur = _PARENT[cur]
        return None

    for scope in SCOPES[1:]:
        sched = scheds[scope]
        stmts = []
        for name in names:
            sym = visible(scope, name)
            if sym is None:
                continue
            if (scope, name) in syms:
                value[0] += 1
                stmts.append(Assignment.create(
                    Reference(sym), Literal(f"{value[0]}.0", REAL_TYPE)))
            one = ArrayReference.create(arr, [Literal("1", INTEGER_TYPE)])
            stmts.append(Assignment.create(
                one, BinaryOperation.create(BinaryOperation.Operator.ADD,
                                            one.copy(), Reference(sym))))
        for stmt in stmts:
            sched.addchild(stmt)
    return psyir


def scope_key(config):
    return "scp:" + (",".join(f"{s}.{n}" for s, n in config) or "none")
