"""C23 core: builds real LFRic PSy objects for generated invokes, enumerates
and applies transformation operations, and judges a state with two oracles
written from the property text only:

* ``judge_schedule`` - basic inspection of the schedule tree (node class
  names, ``loop_type``, kernel names) against the check's own kernel table
  (c23_gen.needs_colouring);
* ``judge_text`` - a line scanner over the Fortran produced by ``psy.gen``.

Neither uses PSyLoop.has_inc_arg / Kern.is_coloured / incremented_arg /
LFRicConstants (the code under test).
"""
import os
import re

from mc import c23_gen as gen

API = "dynamo0.3"

# name -> (module, class, kind)
TRANS = {
    "colour": ("psyclone.transformations", "Dynamo0p3ColourTrans", "loop"),
    "omp_pardo": ("psyclone.transformations", "DynamoOMPParallelLoopTrans",
                  "loop"),
    "omp_do": ("psyclone.transformations", "Dynamo0p3OMPLoopTrans", "loop"),
    "acc_loop": ("psyclone.transformations", "ACCLoopTrans", "loop"),
    "omp_par": ("psyclone.transformations", "OMPParallelTrans", "region"),
    "acc_par": ("psyclone.transformations", "ACCParallelTrans", "region"),
    "acc_kern": ("psyclone.psyir.transformations", "ACCKernelsTrans",
                 "region"),
    "fuse": ("psyclone.domain.lfric.transformations", "LFRicLoopFuseTrans",
             "pair"),
    "move": ("psyclone.transformations", "MoveTrans", "move"),
}
ORDER = ["colour", "omp_pardo", "omp_do", "acc_loop", "omp_par", "acc_par",
         "acc_kern", "fuse", "move"]

# directive class name -> kind used in signatures
DIRKIND = {
    "OMPParallelDoDirective": "omp-parallel-do",
    "OMPDoDirective": "omp-do",
    "OMPLoopDirective": "omp-loop",
    "OMPTaskloopDirective": "omp-taskloop",
    "OMPParallelDirective": "omp-parallel",
    "ACCLoopDirective": "acc-loop",
    "ACCParallelDirective": "acc-parallel",
    "ACCKernelsDirective": "acc-kernels",
}
# directives that share the iterations of the loop they are applied to
# between threads / gangs ("parallel loop" in the property text)
WORKSHARE = {"omp-parallel-do", "omp-do", "omp-loop", "omp-taskloop",
             "acc-loop"}
# ancestors a loop over colours must never have (second sentence of the
# property).  OpenACC parallel / kernels regions are deliberately NOT in
# this set - see notes/C23.md "Reading".
COLOURS_FORBIDDEN = WORKSHARE | {"omp-parallel"}


class Harness(Exception):
    """The check itself is broken (never a verdict)."""


# ---------------------------------------------------------------------------
# building real objects
# ---------------------------------------------------------------------------
class Factory:
    """Parses one generated algorithm once and creates fresh PSy objects."""

    def __init__(self, workdir, tags, sharing):
        from psyclone.configuration import Config
        from psyclone.parse.algorithm import parse
        self.tags = list(tags)
        self.sharing = sharing
        Config.get().api = API
        kdir = os.path.join(workdir, "kern")
        gen.write_kernels(kdir, [gen.decode_tag(t) for t in self.tags])
        alg = os.path.join(workdir, "alg_" + "_".join(self.tags) + "_"
                           + sharing + ".f90")
        with open(alg, "w", encoding="utf-8") as fout:
            fout.write(gen.algorithm_source(self.tags, sharing))
        self.alg = alg
        _, self.info = parse(alg, api=API, kernel_paths=[kdir])

    def fresh(self, dist_mem):
        from psyclone.configuration import Config
        from psyclone.psyGen import PSyFactory
        Config.get().api = API
        psy = PSyFactory(API, distributed_memory=dist_mem).create(self.info)
        invokes = psy.invokes.invoke_list
        if len(invokes) != 1:
            raise Harness(f"expected one invoke, got {len(invokes)}")
        return psy, invokes[0].schedule


_TRANS_OBJ = {}


def trans(name):
    if name not in _TRANS_OBJ:
        import importlib
        mod, cls, _ = TRANS[name]
        _TRANS_OBJ[name] = getattr(importlib.import_module(mod), cls)
    # a new instance per application: no state carried between elements
    return _TRANS_OBJ[name]()


def view(schedule):
    return schedule.view(colour=False)


def node_at(schedule, path):
    node = schedule
    for idx in path:
        node = node.children[idx]
    return node


def _is_kernel(node):
    return any(c.__name__ == "Kern" for c in type(node).__mro__)


def _is_schedule(node):
    return any(c.__name__ == "Schedule" for c in type(node).__mro__)


def statement_schedules(schedule):
    """(path, Schedule) for every Schedule of the tree whose children are
    statements other than kernel calls, in pre-order."""
    out = []

    def visit(node, path):
        if _is_schedule(node) and node.children and \
                not any(_is_kernel(c) for c in node.children):
            out.append((path, node))
        for idx, child in enumerate(node.children):
            visit(child, path + [idx])

    visit(schedule, [])
    return out


def enumerate_ops(schedule, names=None):
    """Every operation of the alphabet on the current tree, in a fixed
    order.  Targets: loop transformations - every statement (child of a
    Schedule) that is not a kernel call; region transformations - every
    contiguous run of such sibling statements; fusion - every adjacent
    sibling pair; move - every ordered pair of distinct siblings ('before'),
    plus 'after' the last sibling."""
    names = names or ORDER
    scheds = statement_schedules(schedule)
    ops = []
    for name in names:
        kind = TRANS[name][2]
        for path, sched in scheds:
            num = len(sched.children)
            if kind == "loop":
                for idx in range(num):
                    ops.append([name, path + [idx]])
            elif kind == "region":
                for lo in range(num):
                    for hi in range(lo, num):
                        ops.append([name, path, lo, hi])
            elif kind == "pair":
                for idx in range(num - 1):
                    ops.append([name, path, idx])
            elif kind == "move":
                # 'after dst' puts the node where 'before dst+1' does, so
                # 'after' is only enumerated for the last sibling
                for src in range(num):
                    for dst in range(num):
                        if src != dst:
                            ops.append([name, path, src, dst, "before"])
                    if src != num - 1:
                        ops.append([name, path, src, num - 1, "after"])
    return ops


def op_str(oper):
    name = oper[0]
    kind = TRANS[name][2]
    pth = ".".join(str(i) for i in oper[1]) or "-"
    if kind == "loop":
        return f"{name}@{pth}"
    if kind == "region":
        return f"{name}@{pth}[{oper[2]}:{oper[3]}]"
    if kind == "pair":
        return f"{name}@{pth}[{oper[2]}+{oper[2] + 1}]"
    return f"{name}@{pth}[{oper[2]}{'<' if oper[4] == 'before' else '>'}{oper[3]}]"


def apply_op(schedule, oper):
    """Applies one operation with the real transformation, without options
    (MoveTrans gets its documented 'position').  Returns None when accepted,
    else ('refused'|'crash', exception class name, message)."""
    from psyclone.psyir.transformations import TransformationError
    from psyclone.errors import GenerationError, InternalError
    name = oper[0]
    kind = TRANS[name][2]
    tobj = trans(name)
    try:
        if kind == "loop":
            tobj.apply(node_at(schedule, oper[1]))
        elif kind == "region":
            sched = node_at(schedule, oper[1])
            nodes = sched.children[oper[2]:oper[3] + 1]
            tobj.apply(nodes[0] if len(nodes) == 1 else nodes)
        elif kind == "pair":
            sched = node_at(schedule, oper[1])
            tobj.apply(sched.children[oper[2]], sched.children[oper[2] + 1])
        else:
            sched = node_at(schedule, oper[1])
            tobj.apply(sched.children[oper[2]], sched.children[oper[3]],
                       {"position": oper[4]})
    except TransformationError as err:
        return ("refused", "TransformationError", str(err.value)[:200])
    except (GenerationError, InternalError, NotImplementedError) as err:
        return ("refused", type(err).__name__, str(err)[:200])
    return None


def replay_history(factory, dist_mem, hist):
    """Fresh objects with the (accepted) operations of hist applied."""
    psy, schedule = factory.fresh(dist_mem)
    for oper in hist:
        res = apply_op(schedule, oper)
        if res is not None:
            raise Harness(f"history {[op_str(o) for o in hist]} is not "
                          f"replayable: {op_str(oper)} -> {res}")
    return psy, schedule


def generate(psy):
    """('ok', text) or ('refused', class name, message)."""
    from psyclone.errors import PSycloneError
    try:
        return ("ok", str(psy.gen))
    except PSycloneError as err:
        # GenerationError, or a VisitorError / InternalError wrapping one:
        # PSyclone's documented way of refusing to generate code
        return ("refused", type(err).__name__, str(err.value)[:300])
    except NotImplementedError as err:
        # "Cannot correctly generate code for an OpenMP parallel region
        # containing children of different types"
        return ("refused", "NotImplementedError", str(err)[:300])


# ---------------------------------------------------------------------------
# oracle 1: the schedule
# ---------------------------------------------------------------------------
_KNAME = re.compile(r"^c23_([a-z0-9_]+?)_code$")


def kernel_tag(name):
    mat = _KNAME.match(name.lower())
    if not mat:
        raise Harness(f"kernel name '{name}' is not one of the generated ones")
    gen.decode_tag(mat.group(1))
    return mat.group(1)


def _needs(tag):
    return gen.needs_colouring(*gen.decode_tag(tag))


def _is_loop(node):
    return any(c.__name__ == "Loop" for c in type(node).__mro__)


def _walk(node):
    yield node
    for child in node.children:
        yield from _walk(child)


def _ancestors(node):
    cur = node.parent
    while cur is not None:
        yield cur
        cur = cur.parent


def judge_schedule(schedule):
    """(findings, relevant): findings = set of (rule, directive kind, kernel
    tag); relevant = the tree holds something the property talks about: a
    work-sharing directive, or a loop over colours together with an OpenMP
    parallel region."""
    found = set()
    has_share = has_colours = has_omp_par = False
    for node in _walk(schedule):
        cname = type(node).__name__
        if cname.endswith("Directive"):
            if cname not in DIRKIND:
                raise Harness(f"unexpected directive class {cname}")
            has_share = has_share or DIRKIND[cname] in WORKSHARE
            has_omp_par = has_omp_par or DIRKIND[cname] == "omp-parallel"
        if _is_loop(node) and node.loop_type == "colours":
            has_colours = True
        if not _is_loop(node):
            continue
        ltype = node.loop_type
        if ltype not in ("", "colour", "colours"):
            raise Harness(f"unexpected loop_type '{ltype}'")
        anc = list(_ancestors(node))
        kinds = [DIRKIND[type(a).__name__] for a in anc
                 if type(a).__name__ in DIRKIND]
        if ltype == "colours":
            for kind in kinds:
                if kind in COLOURS_FORBIDDEN:
                    found.add(("colours-parallel", kind, "-"))
            continue
        tags = [kernel_tag(k.name) for k in _walk(node) if _is_kernel(k)]
        hot = sorted({t for t in tags if _needs(t)})
        if not hot:
            continue
        # nearest work-sharing directive above this loop
        share = None
        for kind in kinds:
            if kind in WORKSHARE:
                share = kind
                break
        if share is None:
            continue
        if ltype == "colour" and any(_is_loop(a) and a.loop_type == "colours"
                                     for a in anc):
            # cells of one colour.  (If the directive sits above the loop
            # over colours instead of on this loop, that loop over colours
            # has a work-sharing ancestor and is reported above.)
            continue
        for tag in hot:
            found.add(("uncoloured", share, tag))
    return found, has_share or (has_colours and has_omp_par)


# ---------------------------------------------------------------------------
# oracle 2: the generated Fortran
# ---------------------------------------------------------------------------
_DO = re.compile(r"^do\s+(\w+)\s*=\s*(.+)$")
_CALL = re.compile(r"^call\s+(c23_\w+_code)\s*\(")


def _split_bounds(text):
    """'a, f(b,c), 1' -> ['a', 'f(b,c)', '1'] (top-level commas)."""
    parts, depth, cur = [], 0, ""
    for char in text:
        if char == "(":
            depth += 1
        elif char == ")":
            depth -= 1
        if char == "," and depth == 0:
            parts.append(cur.strip())
            cur = ""
        else:
            cur += char
    parts.append(cur.strip())
    return parts


def judge_text(code):
    """Set of findings (rule, directive kind, kernel tag) read off the
    generated source alone."""
    found = set()
    stack = []        # ("region", kind) | ("loop", var, upper, share kind)
    pending = None
    regions = {"!$omp parallel do": "omp-parallel-do",
               "!$omp parallel": "omp-parallel",
               "!$acc parallel": "acc-parallel",
               "!$acc kernels": "acc-kernels"}
    for raw in code.split("\n"):
        line = raw.strip().lower()
        if not line:
            continue
        if line.startswith("!$"):
            if line.startswith("!$omp end do") or \
                    line.startswith("!$acc end loop"):
                continue
            if line.startswith("!$omp end ") or line.startswith("!$acc end "):
                what = "!$" + line[2:5] + " " + line[len("!$omp end "):]
                kind = None
                for pre in sorted(regions, key=len, reverse=True):
                    if what.startswith(pre):
                        kind = regions[pre]
                        break
                if kind is None or not stack or stack[-1] != ("region", kind):
                    raise Harness(f"unbalanced directive line '{line}'")
                stack.pop()
                continue
            if line.startswith("!$omp do"):
                pending = "omp-do"
                continue
            if line.startswith("!$acc loop"):
                pending = "acc-loop"
                continue
            kind = None
            for pre in sorted(regions, key=len, reverse=True):
                if line.startswith(pre):
                    kind = regions[pre]
                    break
            if kind is None:
                raise Harness(f"unexpected directive line '{line}'")
            stack.append(("region", kind))
            if kind == "omp-parallel-do":
                pending = kind
            continue
        if line.startswith("!"):
            continue
        mat = _DO.match(line)
        if mat:
            var = mat.group(1)
            bounds = _split_bounds(mat.group(2))
            if var not in ("cell", "colour") or len(bounds) < 2:
                raise Harness(f"unexpected loop '{line}'")
            if var == "colour":
                outer = [e[1] for e in stack if e[0] == "region"]
                outer += [e[3] for e in stack if e[0] == "loop" and e[3]]
                if pending:
                    outer.append(pending)
                for kind in outer:
                    if kind in COLOURS_FORBIDDEN:
                        found.add(("colours-parallel", kind, "-"))
            stack.append(("loop", var, bounds[1], pending))
            pending = None
            continue
        if pending:
            raise Harness(f"directive '{pending}' is not followed by a loop "
                          f"but by '{line}'")
        if line == "end do":
            if not stack or stack[-1][0] != "loop":
                raise Harness("unbalanced END DO")
            stack.pop()
            continue
        mat = _CALL.match(line)
        if mat:
            tag = kernel_tag(mat.group(1))
            loops = [e for e in stack if e[0] == "loop"]
            if not loops or loops[-1][1] != "cell":
                raise Harness(f"kernel call outside a loop over cells: {line}")
            if not _needs(tag):
                continue
            cell = loops[-1]
            outer = loops[:-1]
            one_colour = (any(e[1] == "colour" for e in outer)
                          and "colour" in cell[2]
                          and "(colour,cell)" in line.replace(" ", ""))
            if cell[3] and not one_colour:
                found.add(("uncoloured", cell[3], tag))
            # a shared loop further out that is not the loop over colours
            # cannot be produced (loops are 'cell' or 'colour'); a shared
            # loop over colours is reported by the branch above.
    if stack:
        raise Harness(f"unbalanced generated code: {stack}")
    return found


# Generation refusals that no operation of the alphabet can cure: the
# refused condition is a relation between existing nodes (a directive nested
# in another one, a loop directive whose child is not a loop) and every
# operation only inserts directives / loops above existing nodes, reorders
# siblings, or merges sibling loops - none removes a directive or re-parents
# a node out of one.  A state refused for such a reason AND showing the
# condition in its tree (checked here, independently of the message) is not
# expanded: all its descendants are refused at generation as well.
_PERSISTENT = [
    ("Cannot nest OpenMP parallel regions", "nested-omp-parallel"),
    ("must not be within an OpenACC compute construct", "nested-acc-compute"),
    ("can only be applied to a loop but this Node has a child of type",
     "directive-under-loop-directive"),
    ("must have exactly one Loop as the child", "directive-under-loop-directive"),
]


def dead_end(schedule, message):
    """Name of the persistent refusal, or None."""
    reason = None
    for text, name in _PERSISTENT:
        if text in message:
            reason = name
    if reason is None:
        return None
    for node in _walk(schedule):
        kind = DIRKIND.get(type(node).__name__)
        if kind is None:
            continue
        above = [DIRKIND.get(type(a).__name__) for a in _ancestors(node)]
        if reason == "nested-omp-parallel" and \
                kind in ("omp-parallel", "omp-parallel-do") and \
                any(k in ("omp-parallel", "omp-parallel-do") for k in above):
            return reason
        if reason == "nested-acc-compute" and \
                kind in ("acc-parallel", "acc-kernels") and \
                any(k in ("acc-parallel", "acc-kernels") for k in above):
            return reason
        if reason == "directive-under-loop-directive" and kind in WORKSHARE:
            body = [c for c in node.children if _is_schedule(c)]
            kids = body[0].children if body else []
            if len(kids) != 1 or not _is_loop(kids[0]):
                return reason
    return None


def colours_loop_in_acc_region(code):
    """Is some 'DO colour' loop of the generated code inside an OpenACC
    parallel or kernels region?  (Counted only.)"""
    depth = 0
    for raw in code.split("\n"):
        line = raw.strip().lower()
        if line.startswith("!$acc parallel") or \
                line.startswith("!$acc kernels"):
            depth += 1
        elif line.startswith("!$acc end parallel") or \
                line.startswith("!$acc end kernels"):
            depth -= 1
        elif depth > 0 and line.startswith("do colour"):
            return True
    return False


# ---------------------------------------------------------------------------
# verdict
# ---------------------------------------------------------------------------
def space_class(space):
    if space == "any_space_1":
        return "any_space"
    if space == "any_w2":
        return "any_w2"
    return "continuous"


def signature(rule, kind, tag, where):
    if rule == "uncoloured":
        acc, spc = gen.decode_tag(tag)
        sig = f"uncoloured:{kind}:{acc}:{space_class(spc)}"
    else:
        sig = f"colours-loop:{kind}"
    if where != "both":
        sig += f":{where}-only"
    return sig


def verdicts(sched_found, text_found):
    """[(sig, rule, kind, tag)] sorted; the two oracles are merged and a
    finding seen by only one of them is marked as such."""
    out = []
    for item in sorted(sched_found | text_found):
        where = ("both" if item in sched_found and item in text_found
                 else "schedule" if item in sched_found else "text")
        out.append((signature(item[0], item[1], item[2], where),) + item)
    return out


def kernels_section(code):
    """The executable part of the generated routine (for messages)."""
    lines = code.split("\n")
    start = 0
    for idx, line in enumerate(lines):
        if "Call our kernels" in line or "Call kernels and comm" in line:
            start = idx + 1
    keep = [ln.rstrip() for ln in lines[start:] if ln.strip() not in ("", "!")]
    return "\n".join(keep[:40])
