"""C16 machinery: real symbol tables on three nested scopes + one spare table,
an identity-normalised fingerprint, the operation alphabet, and the judgement of
one transition / one state against a dict-of-scopes reference reading.

Nothing in here consults ``SymbolTable`` logic to decide what is *expected*:
expected lookup results, clash sets and merge results are computed from the
symbols' own ``name`` attributes, the tables' raw ``symbols_dict`` /
``tags_dict`` contents and the nodes' ``parent`` links only.
"""
import hashlib
import traceback

from psyclone.psyir.nodes import (Container, Routine, IfBlock, Literal,
                                  ScopingNode)
from psyclone.psyir.symbols import (
    SymbolTable, Symbol, DataSymbol, ContainerSymbol, RoutineSymbol,
    TypedSymbol, INTEGER_TYPE, BOOLEAN_TYPE, UnresolvedType,
    ArgumentInterface, ImportInterface, UnresolvedInterface)

NSLOT = 4
BACKGROUND_KEYS = ("r",)      # the Routine's own symbol: never an op target


class Harness(Exception):
    """The checking machinery (not PSyclone) is inconsistent."""


# ---------------------------------------------------------------------------
# the world: real objects
# ---------------------------------------------------------------------------
class World:
    """Container 'c' > Routine 'r' > IfBlock > Schedule, plus a detached table.
    Slots 0..2 start attached to those three scopes, slot 3 starts detached."""

    def __init__(self):
        cont = Container("c")
        rout = Routine("r")
        cont.addchild(rout)
        ifb = IfBlock.create(Literal("true", BOOLEAN_TYPE), [])
        rout.addchild(ifb)
        self.nodes = [cont, rout, ifb.if_body]
        self.tabs = [cont.symbol_table, rout.symbol_table,
                     ifb.if_body.symbol_table, SymbolTable()]
        self._ser = {}
        self._keep = []

    def ser(self, obj):
        """Serial number of a symbol object in this world (first-seen order;
        deterministic because every traversal is)."""
        num = self._ser.get(id(obj))
        if num is None:
            num = len(self._keep)
            self._ser[id(obj)] = num
            self._keep.append(obj)      # keeps id() unique for the lifetime
        return num

    def obj(self, ser):
        return self._keep[ser]

    def slot_of(self, table):
        for idx, tab in enumerate(self.tabs):
            if tab is table:
                return idx
        return None

    def node_of(self, node):
        for idx, nod in enumerate(self.nodes):
            if nod is node:
                return idx
        return None


# ---------------------------------------------------------------------------
# snapshot / canonical fingerprint
# ---------------------------------------------------------------------------
# desc fields
D_CLS, D_NAME, D_IFACE, D_CONT, D_ONAME, D_WILD, D_TYPE, D_VIS = range(8)
D_FIELDS = ("class", "name", "iface", "container", "orig_name", "wildcard",
            "datatype", "visibility")


class Snap:
    """Plain-data picture of everything an operation of the alphabet can
    observe: per slot (attached node, ordered (key, symbol) entries, tags,
    argument list), per node the slot of its table, and for every reachable
    symbol its descriptor."""
    __slots__ = ("tabs", "nodes", "desc")

    def __init__(self, tabs, nodes, desc):
        self.tabs = tabs      # tuple of (node|None, ((key, ser)..), ((tag, ser)..), (ser..))
        self.nodes = nodes    # tuple of slot|None|-1 per node
        self.desc = desc      # dict ser -> tuple

    def same(self, other):
        return (self.tabs == other.tabs and self.nodes == other.nodes
                and self.desc == other.desc)

    # convenience readers -------------------------------------------------
    def sers(self, slot):
        return [ser for _key, ser in self.tabs[slot][1]]

    def lnames(self, slot):
        return [self.desc[ser][D_NAME].lower() for _k, ser in self.tabs[slot][1]]

    def tags(self, slot):
        return dict(self.tabs[slot][2])


def snapshot(wld):
    desc = {}

    def see(sym):
        ser = wld.ser(sym)
        if ser not in desc:
            desc[ser] = None
            iface = sym.interface
            cser = oname = None
            if isinstance(iface, ImportInterface):
                cser = see(iface.container_symbol)
                oname = iface.orig_name
            desc[ser] = (
                type(sym).__name__, sym.name, type(iface).__name__, cser, oname,
                bool(sym.wildcard_import) if isinstance(sym, ContainerSymbol)
                else None,
                str(sym.datatype) if isinstance(sym, TypedSymbol) else None,
                sym.visibility.name)
        return ser

    tabs = []
    for tab in wld.tabs:
        node = None
        if tab.node is not None:
            node = wld.node_of(tab.node)
            if node is None:
                raise Harness("table attached to an unknown node")
        ents = tuple((key, see(sym)) for key, sym in tab.symbols_dict.items())
        tags = tuple(sorted((tag, see(sym))
                            for tag, sym in tab.tags_dict.items()))
        # pylint: disable=protected-access
        args = tuple(see(sym) for sym in tab._argument_list)
        tabs.append((node, ents, tags, args))
    nodes = []
    for nod in wld.nodes:
        tab = nod.symbol_table
        if tab is None:
            nodes.append(None)
        else:
            slot = wld.slot_of(tab)
            nodes.append(-1 if slot is None else slot)
    return Snap(tuple(tabs), tuple(nodes), desc)


def canon(snap):
    """Identity-normalised fingerprint: serial numbers are replaced by the
    order of first appearance in a fixed traversal (slots 0..3; entries in
    dict order, each followed by the container it imports from; then tags in
    tag order; then the argument list).

    Argument for soundness (two worlds with equal canon are indistinguishable
    by any operation sequence of the alphabet): operations name symbols only by
    (slot, key) or create them from a (kind, name) spec, and observe only
    names, classes, interface classes, container links, the wildcard flag,
    datatypes, visibilities, dict order, tags, argument lists and the
    table<->node links - all of which are in the fingerprint. Dropped: object
    addresses, the order of the tag dict (no operation iterates it in an
    order-sensitive way), ArgumentInterface.access and interface object
    sharing (never mutated by the alphabet), default_visibility (never
    changed), symbols no table/tag/interface refers to."""
    order = {}

    def visit(ser):
        if ser in order:
            return
        order[ser] = len(order)
        cser = snap.desc[ser][D_CONT]
        if cser is not None:
            visit(cser)

    for _node, ents, tags, args in snap.tabs:
        for _key, ser in ents:
            visit(ser)
        for _tag, ser in tags:
            visit(ser)
        for ser in args:
            visit(ser)
    tabs = tuple(
        (node, tuple((key, order[ser]) for key, ser in ents),
         tuple((tag, order[ser]) for tag, ser in tags),
         tuple(order[ser] for ser in args))
        for node, ents, tags, args in snap.tabs)
    descs = []
    for ser, num in sorted(order.items(), key=lambda kv: kv[1]):
        dsc = snap.desc[ser]
        cser = dsc[D_CONT]
        descs.append(dsc[:D_CONT] + (None if cser is None else order[cser],)
                     + dsc[D_CONT + 1:])
    return (tabs, snap.nodes, tuple(descs))


def digest(can):
    return hashlib.blake2b(repr(can).encode("utf-8"), digest_size=16).digest()


# ---------------------------------------------------------------------------
# enclosing scopes, read from the node tree only
# ---------------------------------------------------------------------------
def chain(wld, slot):
    """Slots of the table itself and of its enclosing scopes (innermost
    first), following ``node.parent``; second value True when a ScopingNode
    ancestor currently has no table (nothing beyond such a hole is judged)."""
    tab = wld.tabs[slot]
    node = tab.node
    res = [slot]
    if node is None:
        return res, False
    cur = node.parent
    while cur is not None:
        if isinstance(cur, ScopingNode):
            ptab = cur.symbol_table
            if ptab is None:
                return res, True
            pslot = wld.slot_of(ptab)
            if pslot is None:
                return res, True
            res.append(pslot)
        cur = cur.parent
    return res, False


def first_container(wld, slot):
    """First ContainerSymbol visible from a slot (own table first, dict
    order): the container that 'imp' symbols made for that slot import from."""
    for one in chain(wld, slot)[0]:
        for sym in wld.tabs[one].symbols_dict.values():
            if isinstance(sym, ContainerSymbol):
                return sym
    return None


# ---------------------------------------------------------------------------
# operations
# ---------------------------------------------------------------------------
KINDS = ("sym", "unres", "loc", "arg", "imp", "cont", "contw", "rout")


def make_symbol(wld, slot, kind, name):
    if kind == "sym":
        return Symbol(name)
    if kind == "unres":
        return Symbol(name, interface=UnresolvedInterface())
    if kind == "loc":
        return DataSymbol(name, INTEGER_TYPE)
    if kind == "arg":
        return DataSymbol(name, INTEGER_TYPE, interface=ArgumentInterface())
    if kind == "imp":
        csym = first_container(wld, slot)
        if csym is None:
            raise Harness("imp symbol requested without a visible container")
        return DataSymbol(name, UnresolvedType(),
                          interface=ImportInterface(csym))
    if kind == "cont":
        return ContainerSymbol(name)
    if kind == "contw":
        return ContainerSymbol(name, wildcard_import=True)
    if kind == "rout":
        return RoutineSymbol(name)
    raise Harness(f"unknown kind {kind}")


def _sym_at(wld, slot, key):
    try:
        return wld.tabs[slot].symbols_dict[key]
    except KeyError:
        raise Harness(f"no key {key!r} in slot {slot}") from None


def _site(exc):
    """Where inside PSyclone the exception was raised: innermost function
    names (at most 3) of the frames that live in psyclone files."""
    names = [frm.name for frm in traceback.extract_tb(exc.__traceback__)
             if "/psyclone/" in frm.filename]
    names.reverse()
    return "<".join(names[:3]) if names else "?"


def detached_slots(wld, slots):
    return [s for s in slots if wld.tabs[s].node is None]


def enabled_ops(space, wld):
    """The operations offered in the current state, in a fixed order that
    depends only on fingerprint-visible facts."""
    ops = []
    slots = space["slots"]
    names = space["names"]
    fam = space["fam"]
    keys = {s: [k for k in wld.tabs[s].symbols_dict if k not in BACKGROUND_KEYS]
            for s in slots}
    has_cont = {s: first_container(wld, s) is not None for s in slots}
    det = detached_slots(wld, slots)

    if "add" in fam:
        par = fam["add"]
        for slot in slots:
            for kind in par["kinds"]:
                if kind == "imp" and not has_cont[slot]:
                    continue
                for name in par.get("names", names):
                    for tag in par["tags"]:
                        ops.append(["add", slot, kind, name, tag])
    if "new" in fam:
        par = fam["new"]
        for slot in slots:
            for root in par["roots"]:
                for shadow in par["shadow"]:
                    for kind, tag, allow in par["variants"]:
                        if kind == "imp" and not has_cont[slot]:
                            continue
                        ops.append(["new", slot, root, shadow, kind, tag, allow])
    if "foc" in fam:
        par = fam["foc"]
        for slot in slots:
            for name in par.get("names", names):
                for kind in par["kinds"]:
                    ops.append(["foc", slot, name, kind])
    if "foct" in fam:
        par = fam["foct"]
        for slot in slots:
            for tag in par["tags"]:
                for root in par["roots"]:
                    ops.append(["foct", slot, tag, root])
    if "cei" in fam:
        par = fam["cei"]
        for slot in slots:
            for name in par.get("names", names):
                for tag in par["tags"]:
                    for cname in par["containers"]:
                        ops.append(["cei", slot, name, tag, cname])
    if "rename" in fam:
        par = fam["rename"]
        for slot in slots:
            for key in keys[slot]:
                for name in par.get("names", names):
                    ops.append(["rename", slot, key, name])
        if par.get("foreign"):
            for slot in slots:
                for other in slots:
                    if other != slot and keys[other]:
                        ops.append(["xrename", slot, other, keys[other][0],
                                    par["foreign"]])
    if "remove" in fam:
        par = fam["remove"]
        for slot in slots:
            for key in keys[slot]:
                ops.append(["remove", slot, key])
        if par.get("foreign"):
            for slot in slots:
                for other in slots:
                    if other != slot and keys[other]:
                        ops.append(["xremove", slot, other, keys[other][0]])
    if "swap" in fam:
        par = fam["swap"]
        for slot in slots:
            for key in keys[slot]:
                cur = wld.tabs[slot].symbols_dict[key].name
                cands = [cur]
                if cur.swapcase() != cur:
                    cands.append(cur.swapcase())
                if par.get("other_name"):
                    cands.append("b" if key != "b" else "a")
                for kind in par["kinds"]:
                    if kind == "imp" and not has_cont[slot]:
                        continue
                    for name in cands:
                        ops.append(["swap", slot, key, kind, name])
    if "swapp" in fam:
        for slot in slots:
            for key1 in keys[slot]:
                for key2 in keys[slot]:
                    if key1 != key2:
                        ops.append(["swapp", slot, key1, key2])
    if "args" in fam:
        for slot in slots:
            syms = list(wld.tabs[slot].symbols_dict.values())
            nargs = sum(1 for s in syms
                        if isinstance(s, DataSymbol) and s.is_argument)
            for mode in fam["args"]["modes"]:
                if mode == "rev" and nargs < 2:
                    continue
                if mode == "all" and nargs < 1:
                    continue
                if mode == "bad" and nargs == len(syms):
                    continue
                if mode == "none" and not wld.tabs[slot]._argument_list:
                    continue
                ops.append(["args", slot, mode])
    if "merge" in fam:
        par = fam["merge"]
        for slot in slots:
            for other in slots:
                if other == slot:
                    continue
                skips = ["-"]
                okeys = list(wld.tabs[other].symbols_dict)
                if par.get("skip"):
                    skips += okeys
                    if len(okeys) > 1:
                        skips.append("*")
                for skip in skips:
                    ops.append(["merge", slot, other, skip])
    if "attach" in fam:
        for slot in slots:
            ops.append(["detach", slot])
            for node in range(len(wld.nodes)):
                ops.append(["attach", slot, node])
    if "copy" in fam:
        for slot in slots:
            for other in det:
                if other != slot:
                    ops.append(["copy", slot, other])
    return ops


class Outcome:
    __slots__ = ("exc", "site", "ret", "made", "target", "skipped", "note")

    def __init__(self):
        self.exc = None      # exception type name when rejected
        self.site = None
        self.ret = None      # returned symbol (new / foc / foct)
        self.made = None     # symbol object created by the harness for the op
        self.target = None   # symbol object the op addressed
        self.skipped = ()    # merge: skipped symbol objects
        self.note = ""

    @property
    def ok(self):
        return self.exc is None


def _new_kwargs(wld, slot, kind):
    if kind == "sym":
        return {}
    if kind == "loc":
        return {"symbol_type": DataSymbol, "datatype": INTEGER_TYPE}
    if kind == "imp":
        csym = first_container(wld, slot)
        if csym is None:
            raise Harness("imp new_symbol requested without a container")
        return {"symbol_type": DataSymbol, "datatype": UnresolvedType(),
                "interface": ImportInterface(csym)}
    if kind == "rout":
        return {"symbol_type": RoutineSymbol}
    raise Harness(f"kind {kind} not supported by new")


def apply_op(wld, oper):
    """Run one operation on the real objects. Harness-side preparation is done
    outside the try block; only the PSyclone call is allowed to raise."""
    out = Outcome()
    name = oper[0]
    slot = oper[1]
    tab = wld.tabs[slot]
    call = None
    post = None
    if name == "add":
        _n, _s, kind, sname, tag = oper
        out.made = make_symbol(wld, slot, kind, sname)
        call = lambda: tab.add(out.made, tag)  # noqa: E731
    elif name == "new":
        _n, _s, root, shadow, kind, tag, allow = oper
        kwargs = _new_kwargs(wld, slot, kind)
        call = lambda: tab.new_symbol(root, tag=tag, shadowing=shadow,  # noqa
                                      allow_renaming=allow, **kwargs)
    elif name == "foc":
        _n, _s, sname, kind = oper
        kwargs = _new_kwargs(wld, slot, kind)
        call = lambda: tab.find_or_create(sname, **kwargs)  # noqa: E731
    elif name == "foct":
        _n, _s, tag, root = oper
        call = lambda: tab.find_or_create_tag(tag, root_name=root)  # noqa
    elif name == "cei":
        _n, _s, sname, tag, cname = oper
        out.made = DataSymbol(sname, INTEGER_TYPE,
                              interface=ImportInterface(ContainerSymbol(cname)))
        call = lambda: tab.copy_external_import(out.made, tag=tag)  # noqa
    elif name == "rename":
        _n, _s, key, newname = oper
        out.target = _sym_at(wld, slot, key)
        call = lambda: tab.rename_symbol(out.target, newname)  # noqa: E731
    elif name == "xrename":
        _n, _s, other, key, newname = oper
        out.target = _sym_at(wld, other, key)
        call = lambda: tab.rename_symbol(out.target, newname)  # noqa: E731
    elif name == "remove":
        out.target = _sym_at(wld, slot, oper[2])
        call = lambda: tab.remove(out.target)  # noqa: E731
    elif name == "xremove":
        out.target = _sym_at(wld, oper[2], oper[3])
        call = lambda: tab.remove(out.target)  # noqa: E731
    elif name == "swap":
        _n, _s, key, kind, sname = oper
        out.target = _sym_at(wld, slot, key)
        out.made = make_symbol(wld, slot, kind, sname)
        call = lambda: tab.swap(out.target, out.made)  # noqa: E731
    elif name == "swapp":
        sym1 = _sym_at(wld, slot, oper[2])
        sym2 = _sym_at(wld, slot, oper[3])
        out.target = (sym1, sym2)
        call = lambda: tab.swap_symbol_properties(sym1, sym2)  # noqa: E731
    elif name == "args":
        mode = oper[2]
        syms = list(tab.symbols_dict.values())
        args = [s for s in syms if isinstance(s, DataSymbol) and s.is_argument]
        if mode == "rev":
            args.reverse()
        elif mode == "none":
            args = []
        elif mode == "bad":
            bad = [s for s in syms
                   if not (isinstance(s, DataSymbol) and s.is_argument)]
            args = args + bad[:1]
        call = lambda: tab.specify_argument_list(args)  # noqa: E731
    elif name == "merge":
        _n, _s, other, skip = oper
        otab = wld.tabs[other]
        if skip == "-":
            out.skipped = ()
        elif skip == "*":
            out.skipped = tuple(otab.symbols_dict.values())
        else:
            out.skipped = (_sym_at(wld, other, skip),)
        skipped = list(out.skipped)
        call = lambda: tab.merge(otab, symbols_to_skip=skipped)  # noqa: E731
    elif name == "detach":
        call = tab.detach
    elif name == "attach":
        node = wld.nodes[oper[2]]
        call = lambda: tab.attach(node)  # noqa: E731
    elif name == "copy":
        other = oper[2]
        if wld.tabs[other].node is not None:
            raise Harness("copy destination slot must hold a detached table")
        call = tab.deep_copy

        def post(res):
            wld.tabs[other] = res
    else:
        raise Harness(f"unknown operation {oper}")
    try:
        res = call()
    except Exception as exc:  # pylint: disable=broad-except
        out.exc = type(exc).__name__
        out.site = _site(exc)
        return out
    if name in ("new", "foc", "foct"):
        if not isinstance(res, Symbol):
            raise Harness(f"{name} returned {type(res).__name__}")
        out.ret = res
    if post:
        post(res)
    return out


def consume_merge_source(wld, oper):
    """After a successful merge the source table is discarded and its slot gets
    a fresh empty table, attached to the same scope if the source was attached
    (exactly what InlineTrans does after merging an inner scope into the
    routine scope), so that no symbol object is owned by two live tables."""
    old = wld.tabs[oper[2]]
    node = old.node
    new = SymbolTable()
    if node is not None:
        old.detach()
        new.attach(node)
    wld.tabs[oper[2]] = new


# ---------------------------------------------------------------------------
# judgement
# ---------------------------------------------------------------------------
def _role(slot, oper):
    if slot == oper[1]:
        return "self"
    if (oper[0] in ("merge", "copy", "xrename", "xremove", "cfc")
            and slot == oper[2]):
        return "other"
    return "else"


def diff_classes(pre, post, oper):
    """Coarse, stable description of what differs between two snapshots."""
    out = set()
    for slot in range(NSLOT):
        tpre, tpost = pre.tabs[slot], post.tabs[slot]
        role = _role(slot, oper)
        if tpre[0] != tpost[0]:
            out.add(f"{role}.node")
        if [s for _k, s in tpre[1]] != [s for _k, s in tpost[1]]:
            out.add(f"{role}.symbols")
        elif tpre[1] != tpost[1]:
            out.add(f"{role}.keys")
        if tpre[2] != tpost[2]:
            out.add(f"{role}.tags")
        if tpre[3] != tpost[3]:
            out.add(f"{role}.args")
    if pre.nodes != post.nodes:
        out.add("nodes")
    for ser, dpre in pre.desc.items():
        dpost = post.desc.get(ser)
        if dpost is None or dpost == dpre:
            continue
        for idx, fld in enumerate(D_FIELDS):
            if dpre[idx] != dpost[idx]:
                out.add(f"sym.{fld}")
    return ",".join(sorted(out)) or "?"


def _show_tab(snap, slot):
    node, ents, tags, args = snap.tabs[slot]
    where = {None: "detached", 0: "Container", 1: "Routine", 2: "Schedule"}[node]
    parts = []
    for key, ser in ents:
        dsc = snap.desc[ser]
        txt = f"{key}->{dsc[D_NAME]}:{dsc[D_CLS]}/{dsc[D_IFACE][:-9] or '-'}"
        if dsc[D_WILD]:
            txt += "*"
        if dsc[D_CONT] is not None:
            txt += f"@{snap.desc[dsc[D_CONT]][D_NAME]}"
        parts.append(txt)
    txt = f"T{slot}[{where}]{{" + ", ".join(parts) + "}"
    if tags:
        txt += " tags{" + ", ".join(
            f"{t}->{snap.desc[s][D_NAME]}" for t, s in tags) + "}"
    if args:
        txt += " args[" + ",".join(snap.desc[s][D_NAME] for s in args) + "]"
    return txt


def show(snap):
    return "; ".join(_show_tab(snap, s) for s in range(NSLOT))


def _equiv(dsc_a, dsc_b):
    """Weak notion of 'the other table's symbol is already represented'."""
    if dsc_a[D_CLS] == "ContainerSymbol" and dsc_b[D_CLS] == "ContainerSymbol":
        return True
    if dsc_a[D_IFACE] == "ImportInterface" and dsc_b[D_IFACE] == "ImportInterface":
        return True
    if (dsc_a[D_IFACE] == "UnresolvedInterface"
            and dsc_b[D_IFACE] == "UnresolvedInterface"):
        return True
    return False


def judge_transition(wld, oper, pre, post, out, pre_chain):
    """Judges one executed operation. ``pre``/``post`` are snapshots taken
    around the call (``post`` before a merge source is discarded).
    ``pre_chain`` is chain(world, slot) evaluated before the call.
    Returns a list of (sig, message)."""
    name = oper[0]
    slot = oper[1]
    viol = []
    if not out.ok:
        if not pre.same(post):
            what = diff_classes(pre, post, oper)
            viol.append((
                f"atomic:{name}:{out.exc}@{out.site}",
                f"{oper} raised {out.exc} (in {out.site}) but the tables "
                f"changed [{what}]: before {show(pre)} ; after {show(post)}"))
        return viol

    # ---- names of pre-existing symbols, untouched slots ------------------
    renamed_ok = set()
    if name in ("rename", "xrename"):
        renamed_ok.add(wld.ser(out.target))
    if name != "merge":
        for ser, dpre in pre.desc.items():
            dpost = post.desc.get(ser)
            if dpost is None or ser in renamed_ok:
                continue
            if dpost[D_NAME] != dpre[D_NAME]:
                viol.append((f"effect:{name}:renamed-bystander",
                             f"{oper} changed the name of '{dpre[D_NAME]}' to "
                             f"'{dpost[D_NAME]}'; before {show(pre)} ; after "
                             f"{show(post)}"))
    touched = {slot}
    if name in ("merge", "copy"):
        touched.add(oper[2])
    for one in range(NSLOT):
        if one in touched:
            continue
        if sorted(pre.sers(one)) != sorted(post.sers(one)):
            viol.append((f"effect:{name}:bystander-table",
                         f"{oper} changed the symbols of slot {one}; before "
                         f"{show(pre)} ; after {show(post)}"))

    def expect_set(expected, what):
        got = sorted(post.sers(slot))
        if got != sorted(expected):
            viol.append((f"effect:{name}:{what}",
                         f"{oper}: the set of symbol objects of slot {slot} is "
                         f"not the expected one; before {show(pre)} ; after "
                         f"{show(post)}"))

    def fresh(sym, shadow, api):
        lname = sym.name.lower()
        if lname in pre.lnames(slot):
            viol.append((f"fresh:{api}:clash-self",
                         f"{oper} produced '{sym.name}' which is already a "
                         f"name of the table; before {show(pre)}"))
        elif not shadow:
            for anc in pre_chain[0][1:]:
                if lname in pre.lnames(anc):
                    viol.append((
                        f"fresh:{api}:clash-ancestor",
                        f"{oper} produced '{sym.name}' which is a name of the "
                        f"enclosing scope T{anc}; before {show(pre)}"))
                    break

    if name == "add":
        made = wld.ser(out.made)
        expect_set(pre.sers(slot) + [made], "symbol-set")
        tag = oper[4]
        if tag and post.tags(slot).get(tag) != made:
            viol.append(("effect:add:tag-not-set",
                         f"{oper}: tag does not map to the added symbol; "
                         f"after {show(post)}"))
    elif name in ("new", "foc", "foct"):
        ret = wld.ser(out.ret)
        if ret in pre.desc:
            # an existing symbol was returned (find_or_create*)
            if name == "new":
                viol.append(("effect:new:returned-existing",
                             f"{oper} returned a pre-existing symbol"))
            expect_set(pre.sers(slot), "symbol-set")
            if name == "foc":
                exp = model_lookup(pre, pre_chain, oper[2])
                if exp[0] == "hit" and exp[1] != ret:
                    viol.append((
                        "lookup:find_or_create:wrong-symbol",
                        f"{oper} returned '{out.ret.name}' but the innermost "
                        f"symbol of that name is another object; {show(pre)}"))
            if name == "foct":
                exp = model_taglookup(pre, pre_chain, oper[2])
                if exp[0] == "hit" and exp[1] != ret:
                    viol.append((
                        "taglookup:find_or_create_tag:wrong-symbol",
                        f"{oper} returned '{out.ret.name}' but the innermost "
                        f"scope with that tag maps it elsewhere; {show(pre)}"))
        else:
            expect_set(pre.sers(slot) + [ret], "symbol-set")
            shadow = oper[3] if name == "new" else False
            fresh(out.ret, shadow, {"new": "new_symbol", "foc": "find_or_create",
                                    "foct": "find_or_create_tag"}[name])
    elif name == "rename":
        expect_set(pre.sers(slot), "symbol-set")
        got = post.desc[wld.ser(out.target)][D_NAME]
        if got != oper[3]:
            viol.append(("effect:rename:name-not-set",
                         f"{oper}: the symbol is now called '{got}'"))
    elif name == "remove":
        expect_set([s for s in pre.sers(slot) if s != wld.ser(out.target)],
                   "symbol-set")
    elif name == "swap":
        expect_set([s for s in pre.sers(slot) if s != wld.ser(out.target)]
                   + [wld.ser(out.made)], "symbol-set")
    elif name in ("swapp", "args"):
        expect_set(pre.sers(slot), "symbol-set")
    elif name == "detach":
        expect_set(pre.sers(slot), "symbol-set")
        if post.tabs[slot][0] is not None:
            viol.append(("effect:detach:still-attached", f"{oper}"))
    elif name == "attach":
        expect_set(pre.sers(slot), "symbol-set")
        if post.tabs[slot][0] != oper[2] or post.nodes[oper[2]] != slot:
            viol.append(("effect:attach:not-attached",
                         f"{oper}: after {show(post)}"))
    elif name == "copy":
        expect_set(pre.sers(slot), "symbol-set")
    elif name == "cei":
        lost = [s for s in pre.sers(slot) if s not in post.sers(slot)]
        if lost:
            viol.append(("effect:cei:lost-symbol",
                         f"{oper} removed a symbol; before {show(pre)} ; after "
                         f"{show(post)}"))
    elif name == "merge":
        viol += _judge_merge(wld, oper, pre, post, out)
    # xrename / xremove accepted: no stated effect; the state invariants judge
    return viol


def _judge_merge(wld, oper, pre, post, out):
    slot, other = oper[1], oper[2]
    viol = []
    skipped = {wld.ser(s) for s in out.skipped}
    pre_t = pre.sers(slot)
    pre_u = pre.sers(other)
    post_t = post.sers(slot)
    count = {}
    for ser in post_t:
        count[ser] = count.get(ser, 0) + 1
    post_by_lname = {}
    for ser in post_t:
        post_by_lname.setdefault(post.desc[ser][D_NAME].lower(), []).append(ser)
    ctx = f"before {show(pre)} ; after {show(post)}"
    for ser in pre_t:
        if count.get(ser, 0) != 1:
            viol.append((
                "merge:own-symbol-" + ("lost" if not count.get(ser) else "dup"),
                f"{oper}: '{pre.desc[ser][D_NAME]}' of the receiving table is "
                f"there {count.get(ser, 0)} times afterwards; {ctx}"))
    for ser in pre_u:
        if ser in skipped:
            continue
        num = count.get(ser, 0)
        dpre = pre.desc[ser]
        if num == 1:
            continue
        if num > 1:
            viol.append(("merge:added-twice",
                         f"{oper}: '{dpre[D_NAME]}' was added {num} times; {ctx}"))
            continue
        same = post_by_lname.get(dpre[D_NAME].lower(), [])
        if any(_equiv(post.desc[s], post.desc.get(ser, dpre)) for s in same):
            continue
        viol.append((
            f"merge:not-added:{dpre[D_CLS]}/{dpre[D_IFACE]}",
            f"{oper}: non-skipped symbol '{dpre[D_NAME]}' of the other table "
            f"is neither in the receiving table nor represented there by an "
            f"equivalent container/import/unresolved symbol; {ctx}"))
    ln_t = set(pre.lnames(slot))
    ln_u = set(pre.lnames(other))
    for ser in pre_t + pre_u:
        dpost = post.desc.get(ser)
        if dpost is None:
            continue
        old = pre.desc[ser][D_NAME]
        if dpost[D_NAME] == old:
            continue
        clash = ln_u if ser in pre_t and ser not in pre_u else ln_t
        if old.lower() not in clash:
            viol.append((
                "merge:needless-rename",
                f"{oper}: '{old}' was renamed to '{dpost[D_NAME]}' although "
                f"the other table had no symbol of that name; {ctx}"))
    return viol


# ---- reference reading of a state ---------------------------------------
def model_lookup(snap, chn, name):
    """('hit', ser) | ('miss',) | ('unjudged',) from names, not from keys."""
    lname = name.lower()
    for slot in chn[0]:
        hits = [ser for _k, ser in snap.tabs[slot][1]
                if snap.desc[ser][D_NAME].lower() == lname]
        if len(hits) > 1:
            return ("unjudged",)
        if hits:
            return ("hit", hits[0])
    if chn[1]:
        return ("unjudged",)
    return ("miss",)


def model_taglookup(snap, chn, tag):
    for slot in chn[0]:
        tags = snap.tags(slot)
        if tag in tags:
            if tags[tag] not in snap.sers(slot):
                return ("stale", tags[tag])
            return ("hit", tags[tag])
    if chn[1]:
        return ("unjudged",)
    return ("miss",)


def judge_state(space, wld, snap, after):
    """State invariants, judged with pure observers on the real tables.
    ``after`` is the name of the operation that produced the state."""
    viol = []
    stats = {"lookups": 0, "taglookups": 0, "fresh_names": 0, "clash_checks": 0}
    slots = space["slots"]
    ctx = show(snap)
    # I1: unique names / objects per table
    for slot in slots:
        lnames = snap.lnames(slot)
        sers = snap.sers(slot)
        if len(set(lnames)) != len(lnames):
            dup = sorted(n for n in set(lnames) if lnames.count(n) > 1)
            viol.append((f"unique:after-{after}:same-name-twice",
                         f"table T{slot} holds two symbols whose names are "
                         f"equal ignoring case ({dup}); {ctx}"))
        if len(set(sers)) != len(sers):
            viol.append((f"unique:after-{after}:same-object-twice",
                         f"table T{slot} holds one symbol object under two "
                         f"keys; {ctx}"))
    chains = {slot: chain(wld, slot) for slot in slots}
    present = []
    for slot in range(NSLOT):
        for _k, ser in snap.tabs[slot][1]:
            present.append(snap.desc[ser][D_NAME])
    probes = []
    for nam in list(space["names"]) + present:
        for var in (nam, nam.lower(), nam.upper()):
            if var not in probes:
                probes.append(var)
    # I2: lookup returns the innermost symbol (also with a scope_limit)
    for slot in slots:
        tab = wld.tabs[slot]
        variants = [(None, chains[slot], "")]
        if len(chains[slot][0]) > 1:
            for pos, lim in enumerate(chains[slot][0]):
                variants.append((wld.tabs[lim].node,
                                 (chains[slot][0][:pos + 1], False),
                                 f", scope_limit=node of T{lim}"))
        for limit, chn, ltxt in variants:
            for nam in probes:
                exp = model_lookup(snap, chn, nam)
                if exp[0] == "unjudged":
                    continue
                stats["lookups"] += 1
                try:
                    got = ("hit", wld.ser(tab.lookup(nam, scope_limit=limit)))
                except KeyError:
                    got = ("miss",)
                except Exception as exc:  # pylint: disable=broad-except
                    got = ("raised", type(exc).__name__)
                if got == exp:
                    continue
                if exp[0] == "miss":
                    detail = "ghost" if got[0] == "hit" else "raised"
                elif got[0] == "miss":
                    detail = "not-found"
                elif got[0] == "raised":
                    detail = "raised"
                else:
                    gslot = [s for s in chn[0] if got[1] in snap.sers(s)]
                    eslot = [s for s in chn[0] if exp[1] in snap.sers(s)]
                    if not gslot or (eslot and gslot[0] != eslot[0]):
                        detail = "wrong-scope"
                    else:
                        detail = "wrong-symbol"
                if limit is not None:
                    detail += "-limited"
                viol.append((
                    f"lookup:{detail}:after-{after}",
                    f"T{slot}.lookup('{nam}'{ltxt}) gave {_fmt(snap, got)} but "
                    f"the innermost enclosing scope with a symbol of that name "
                    f"gives {_fmt(snap, exp)}; {ctx}"))
    # I3: tag lookup
    tagset = list(space["tags"])
    for slot in range(NSLOT):
        for tag, _s in snap.tabs[slot][2]:
            if tag not in tagset:
                tagset.append(tag)
    for slot in slots:
        tab = wld.tabs[slot]
        for tag in tagset:
            exp = model_taglookup(snap, chains[slot], tag)
            if exp[0] == "unjudged":
                continue
            stats["taglookups"] += 1
            try:
                got = ("hit", wld.ser(tab.lookup_with_tag(tag)))
            except KeyError:
                got = ("miss",)
            except Exception as exc:  # pylint: disable=broad-except
                got = ("raised", type(exc).__name__)
            if exp[0] == "stale":
                if got == ("hit", exp[1]):
                    viol.append((
                        f"taglookup:stale-tag:after-{after}",
                        f"T{slot}.lookup_with_tag('{tag}') returns "
                        f"'{snap.desc[exp[1]][D_NAME]}', which is not a symbol "
                        f"of the scope that holds the tag; {ctx}"))
                continue
            if got != exp:
                viol.append((
                    f"taglookup:{got[0]}-expected-{exp[0]}:after-{after}",
                    f"T{slot}.lookup_with_tag('{tag}') gave {_fmt(snap, got)}, "
                    f"expected {_fmt(snap, exp)}; {ctx}"))
    # I5: fresh names. A second table is supplied whenever it holds a name that
    # extends the root (otherwise it cannot influence the answer).
    for slot in slots:
        tab = wld.tabs[slot]
        own = set(snap.lnames(slot))
        anc = set()
        for one in chains[slot][0][1:]:
            anc.update(snap.lnames(one))
        for other in [None] + [s for s in slots if s != slot]:
            oth = set(snap.lnames(other)) if other is not None else set()
            otab = wld.tabs[other] if other is not None else None
            for root in space["roots"]:
                if other is not None and (
                        root is None or
                        not any(n.startswith(root.lower()) for n in oth)):
                    continue
                for shadow in (False, True):
                    try:
                        got = tab.next_available_name(root, shadowing=shadow,
                                                      other_table=otab)
                    except Exception:  # pylint: disable=broad-except
                        continue
                    stats["fresh_names"] += 1
                    low = got.lower()
                    where = None
                    if low in own:
                        where = "self"
                    elif low in oth:
                        where = "other"
                    elif not shadow and low in anc:
                        where = "ancestor"
                    if where:
                        viol.append((
                            f"fresh:next_available_name:clash-{where}",
                            f"T{slot}.next_available_name({root!r}, shadowing="
                            f"{shadow}, other_table="
                            f"{'T%d' % other if other is not None else None}) "
                            f"returned '{got}' which is already a name in "
                            f"{where}; {ctx}"))
    # I6: copying the Routine subtree (ScopingNode._refine_copy -> deep_copy):
    # the copied scopes must again have unique names and scoped lookups
    rout = wld.nodes[1]
    if (space.get("nodecopy", True) and rout.symbol_table is not None
            and wld.nodes[2].symbol_table is not None):
        try:
            new = rout.copy()
        except Exception:  # pylint: disable=broad-except
            new = None
            stats["nodecopy_rejected"] = stats.get("nodecopy_rejected", 0) + 1
        if new is not None:
            stats["nodecopy"] = stats.get("nodecopy", 0) + 1
            ntabs = [new.children[0].if_body.symbol_table, new.symbol_table]
            if ntabs[0] is None or ntabs[1] is None:
                raise Harness("copied scoping node without a table")
            lists = [[(sym.name.lower(), sym) for sym in
                      tab.symbols_dict.values()] for tab in ntabs]
            unique = True
            for lst in lists:
                lows = [n for n, _s in lst]
                if len(set(lows)) != len(lows):
                    unique = False
                    viol.append((
                        f"nodecopy:same-name-twice:after-{after}",
                        f"Routine.copy() produced a table with two symbols of "
                        f"the same name {sorted(lows)}; original {ctx}"))
            if unique:
                for nam in probes:
                    exp = None
                    for lst in lists:
                        hit = [sym for low, sym in lst if low == nam.lower()]
                        if hit:
                            exp = hit[0]
                            break
                    try:
                        got = ntabs[0].lookup(nam)
                    except KeyError:
                        got = None
                    except Exception as exc:  # pylint: disable=broad-except
                        got = type(exc).__name__
                    stats["lookups"] += 1
                    if got is not exp:
                        viol.append((
                            f"nodecopy:lookup:after-{after}",
                            f"in Routine.copy(), lookup('{nam}') from the "
                            f"inner scope gave "
                            f"{getattr(got, 'name', got)!r} but the innermost "
                            f"copied scope with that name holds "
                            f"{getattr(exp, 'name', exp)!r} (or it is not the "
                            f"copied object); original {ctx}"))
    # check_for_clashes: a rejecting check must change nothing
    pairs = [(s, o) for s in slots for o in slots if s != o]
    raised = {}
    for slot, other in pairs:
        stats["clash_checks"] += 1
        try:
            wld.tabs[slot].check_for_clashes(wld.tabs[other])
        except Exception as err:  # pylint: disable=broad-except
            raised[(slot, other)] = (type(err).__name__, _site(err))
    now = snapshot(wld)
    if not now.same(snap):
        # find the culprit on a state that is already spoilt: report the
        # first raising call (in pair order) as the one that changed things
        what = diff_classes(snap, now, ["cfc", -1, -1])
        if not raised:
            raise Harness("check_for_clashes changed the tables without "
                          "raising: " + show(snap) + " -> " + show(now))
        (slot, other), (ename, site) = sorted(raised.items())[0]
        viol.append((
            f"atomic:check_for_clashes:{ename}@{site}",
            f"a rejecting check_for_clashes (first: T{slot} vs T{other}) "
            f"changed [{what}]: {ctx} -> {show(now)}"))
        return viol, stats
    now = snapshot(wld)
    if not now.same(snap):
        raise Harness("a read-only observer changed the tables: "
                      + show(snap) + " -> " + show(now))
    return viol, stats


def _fmt(snap, res):
    if res[0] in ("hit", "stale"):
        dsc = snap.desc.get(res[1])
        where = [s for s in range(NSLOT) if res[1] in snap.sers(s)]
        nam = dsc[D_NAME] if dsc else "?"
        return f"symbol '{nam}' of T{where[0] if where else '?'}"
    if res[0] == "raised":
        return f"exception {res[1]}"
    return "KeyError (not found)"
