"""Model-fidelity self-test of E6: hand-written, obviously correct
PSy-layer-like code (every field a kernel touches is exchanged to the full
halo depth before every loop; loops that increment a continuous field run
over the first halo level; every written field is flagged dirty afterwards)
is executed on the two-partition machine from every initial halo state and
must reproduce the global serial run with no dirty read and no stale claim.
The same code WITHOUT its halo exchanges must be caught (the oracles are not
vacuous).  The text is produced by this module, not by PSyclone."""
from mc.lfring import core, gen, kernels


def handwritten(spec, exchanges=True):
    fields = sorted(spec["fields"])
    extents = []
    lines = []
    add = lines.append
    stmaps = []
    for kidx, kern in enumerate(spec["kernels"]):
        if kern["kind"] != "cell":
            continue
        for arg in kern["args"]:
            sten = arg.get("st")
            if sten:
                if sten[1] == "v":
                    ename = gen.extent_name(kidx, arg)
                    extents.append(ename)
                else:
                    ename = str(sten[1])
                stmaps.append((kidx, arg["f"], gen.STENCIL_CONST[sten[0]],
                               ename))
    add("module hand_psy")
    add("  use constants_mod, only: r_def, i_def")
    add("  use field_mod, only: field_type, field_proxy_type")
    add("  implicit none")
    add("contains")
    add(f"  subroutine invoke_0({', '.join(fields + extents)})")
    add("    use mesh_mod, only: mesh_type")
    add("    use stencil_dofmap_mod, only: stencil_dofmap_type, "
        "STENCIL_CROSS, STENCIL_REGION, STENCIL_1DX")
    add(f"    type(field_type), intent(in) :: {', '.join(fields)}")
    for ename in extents:
        add(f"    integer(kind=i_def), intent(in) :: {ename}")
    add("    integer(kind=i_def) :: cell")
    add("    integer(kind=i_def) :: df")
    add("    integer(kind=i_def) :: nlayers")
    add("    type(mesh_type), pointer :: mesh => null()")
    for fld in fields:
        add(f"    type(field_proxy_type) :: {fld}_proxy")
        add(f"    real(kind=r_def), pointer, dimension(:) :: {fld}_data => null()")
        add(f"    integer(kind=i_def), pointer :: map_{fld}(:,:) => null()")
        add(f"    integer(kind=i_def) :: ndf_{fld}")
        add(f"    integer(kind=i_def) :: undf_{fld}")
    for kidx, fld, _, _ in stmaps:
        add(f"    type(stencil_dofmap_type), pointer :: sm_{kidx}_{fld} => null()")
        add(f"    integer(kind=i_def), pointer :: ss_{kidx}_{fld}(:) => null()")
        add(f"    integer(kind=i_def), pointer :: sd_{kidx}_{fld}(:,:,:) => null()")
    for fld in fields:
        add(f"    {fld}_proxy = {fld}%get_proxy()")
        add(f"    {fld}_data => {fld}_proxy%data")
        add(f"    map_{fld} => {fld}_proxy%vspace%get_whole_dofmap()")
        add(f"    ndf_{fld} = {fld}_proxy%vspace%get_ndf()")
        add(f"    undf_{fld} = {fld}_proxy%vspace%get_undf()")
    add(f"    nlayers = {fields[0]}_proxy%vspace%get_nlayers()")
    add(f"    mesh => {fields[0]}_proxy%vspace%get_mesh()")
    for kidx, fld, const, ename in stmaps:
        add(f"    sm_{kidx}_{fld} => {fld}_proxy%vspace%get_stencil_dofmap("
            f"{const},{ename})")
        add(f"    sd_{kidx}_{fld} => sm_{kidx}_{fld}%get_whole_dofmap()")
        add(f"    ss_{kidx}_{fld} => sm_{kidx}_{fld}%get_stencil_sizes()")
    for kidx, kern in enumerate(spec["kernels"]):
        used = kern["f"] if kern["kind"] == "bi" else \
            [a["f"] for a in kern["args"]]
        if exchanges:
            for fld in used:
                add(f"    call {fld}_proxy%halo_exchange(depth=3)")
        if kern["kind"] == "bi":
            tgt = kern["f"][0]
            add(f"    do df = 1, {tgt}_proxy%vspace%get_last_dof_owned(), 1")
            name = kern["name"]
            if name == "setval_c":
                add(f"      {tgt}_data(df) = {gen.SETVAL_CONST}")
            elif name == "setval_x":
                add(f"      {tgt}_data(df) = {kern['f'][1]}_data(df)")
            elif name == "x_plus_y":
                add(f"      {tgt}_data(df) = {kern['f'][1]}_data(df) + "
                    f"{kern['f'][2]}_data(df)")
            elif name == "inc_x_plus_y":
                add(f"      {tgt}_data(df) = {tgt}_data(df) + "
                    f"{kern['f'][1]}_data(df)")
            add("    end do")
            add(f"    call {tgt}_proxy%set_dirty()")
            continue
        into_halo = any(a["acc"] in ("inc", "readinc") and
                        spec["fields"][a["f"]] == "c" for a in kern["args"])
        bound = "mesh%get_last_halo_cell(1)" if into_halo else \
            "mesh%get_last_edge_cell()"
        actual = ["nlayers"]
        for arg in kern["args"]:
            actual.append(f"{arg['f']}_data")
            if arg.get("st"):
                actual.append(f"ss_{kidx}_{arg['f']}(cell)")
                actual.append(f"sd_{kidx}_{arg['f']}(:,:,cell)")
        for fsname in kernels.unique_spaces(kern):
            fld = [a["f"] for a in kern["args"] if a["fs"] == fsname][0]
            actual += [f"ndf_{fld}", f"undf_{fld}", f"map_{fld}(:,cell)"]
        add(f"    do cell = 1, {bound}, 1")
        add(f"      call {gen.kernel_name(kern)}_code({', '.join(actual)})")
        add("    end do")
        for arg in kern["args"]:
            if arg["acc"] != "read":
                add(f"    call {arg['f']}_proxy%set_dirty()")
    add("  end subroutine invoke_0")
    add("end module hand_psy")
    return "\n".join(lines) + "\n", extents


def _specs():
    from mc.lfring.spaces import make_spec
    rd = lambda fs, st=None: ("read", fs, st)
    return [
        make_spec([("cell", [("f1", ("inc", "w1")),
                             ("f2", rd("w3", ["cross", "v"])),
                             ("f3", rd("w1"))]),
                   ("bi", "setval_c", ["f3"], "c"),
                   ("cell", [("f2", ("rw", "w3")),
                             ("f1", rd("any_space_1", ["region", 2]))])]),
        make_spec([("cell", [("f1", ("readinc", "w1")), ("f2", rd("w1"))]),
                   ("cell", [("f3", ("write", "w3")),
                             ("f1", rd("w1", ["x1d", 1]))]),
                   ("cell", [("f2", ("write", "w1")), ("f1", rd("w1"))])]),
        make_spec([("bi", "setval_c", ["f1"], "d"),
                   ("bi", "x_plus_y", ["f3", "f1", "f2"], "d"),
                   ("cell", [("f1", ("inc", "any_space_1")),
                             ("f3", rd("w3", ["cross", "v"]))]),
                   ("bi", "inc_x_plus_y", ["f2", "f1"], "d")], "d"),
        make_spec([("cell", [("f1", ("write", "any_space_1")),
                             ("f2", rd("any_space_1"))]),
                   ("cell", [("f3", ("inc", "w1")), ("f1", rd("w1")),
                             ("f2", rd("w1", ["cross", 2]))])]),
    ]


def run():
    """Raises AssertionError (harness error) on any disagreement."""
    executor = core.Executor()
    for num, spec in enumerate(_specs()):
        assert spec is not None
        skey = core.spec_key(spec)
        for annexed in (False, True):
            text, extents = handwritten(spec, exchanges=True)
            out = executor.execute(text, spec, skey, extents, annexed)
            assert out["runs"] == 64 * 2 ** len(extents), out["runs"]
            assert not out["aborts"], (num, out["aborts"])
            assert not out["findings"], (
                f"E6 self-test {num} (annexed={annexed}): correct "
                f"hand-written code disagrees with the serial run: "
                f"{ {k: v[:3] for k, v in out['findings'].items()} }")
            text, extents = handwritten(spec, exchanges=False)
            out = executor.execute(text, spec, skey, extents, annexed)
            assert out["findings"], (
                f"E6 self-test {num}: code without halo exchanges was not "
                f"caught")
            kinds = {sig.split(":")[0] for sig in out["findings"]}
            assert kinds & {"dirty-read", "owned"}, kinds
    return True
