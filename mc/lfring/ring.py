"""E6: concrete model of the part of the LFRic run time a distributed-memory
PSy layer uses, on a periodic 1-D ring of 2N cells split into two symmetric
partitions (plus the undecomposed "serial" ring used as the reference).

Geometry (per partition p in {0, 1}; chain coordinate x):

    local cell   1..N          owned            x = 1..N
                 N+2d-1        halo depth d, right side   x = N+d
                 N+2d          halo depth d, left side    x = 1-d
    global cell id = (p*N + x - 1) mod 2N

A continuous space has its DoFs on the vertices; vertex y is the left vertex
of cell x=y and the right vertex of cell x=y-1; the vertex with global id g is
OWNED by the partition that owns cell g.  Hence, per partition, vertices
y=1..N are owned, y=N+1 (shared by the last owned cell and the first right
halo cell) is ANNEXED, and each halo cell of depth d adds one new vertex.
DoF order: owned < annexed < halo(1) < halo(2) < ... (as in LFRic).
A discontinuous space has one DoF per cell (local DoF index = local cell).

With N < 2H a global cell may appear twice in a partition's halo (once on
each side, at different depths): the two are separate local copies, as for a
periodic image.

Flag semantics (transcribed from infrastructure/field/field_parent_mod.f90
of the LFRic infrastructure shipped with PSyclone and the LFRic field_mod):
  halo_dirty(1:H) initialised to 1; is_dirty(d) = halo_dirty(d)==1, error if
  d > H; set_dirty(): halo_dirty(:)=1; set_clean(d): halo_dirty(1:d)=0,
  error if d > H; halo_exchange(d): error if d > H, exchange, then
  halo_dirty(1:d)=0; halo_exchange_start(d) begins the exchange and
  halo_exchange_finish(d) completes it and sets halo_dirty(1:d)=0.
A halo exchange to depth d refreshes the annexed DoFs and the halo DoFs of
depth <= d with the OWNER partition's current value.
"""
from mc.fortsem.interp import ObjVal, POISON, make_array


class LFRicAbort(Exception):
    """The LFRic infrastructure would log an ERROR and stop (e.g. depth out
    of range)."""


OWNED, ANNEXED = 0, -1        # DoF 'depth' labels; halo depth d is d >= 1


class Mesh:
    """Local mesh of one partition (part = 0 | 1) or the whole ring
    (part = None, no halos)."""

    def __init__(self, ncell, depth, part):
        self.n = ncell
        self.h = depth if part is not None else 0
        self.part = part
        self.nglob = 2 * ncell
        # chain coordinate of each local cell (index 0 unused)
        if part is None:
            self.xs = [None] + list(range(1, self.nglob + 1))
        else:
            self.xs = [None] + list(range(1, ncell + 1))
            for dep in range(1, depth + 1):
                self.xs.append(ncell + dep)      # right
                self.xs.append(1 - dep)          # left
        self.ncells = len(self.xs) - 1
        self.cell_at = {x: c for c, x in enumerate(self.xs) if c}
        self.cell_depth = [None]
        for cell in range(1, self.ncells + 1):
            x = self.xs[cell]
            if part is None or 1 <= x <= ncell:
                self.cell_depth.append(0)
            elif x > ncell:
                self.cell_depth.append(x - ncell)
            else:
                self.cell_depth.append(1 - x)
        # colours: global cell parity (neighbouring cells differ)
        self.ncolours = 2
        lists = {1: [], 2: []}
        for cell in range(1, self.ncells + 1):
            lists[self.global_cell(cell) % 2 + 1].append(cell)
        width = max(len(v) for v in lists.values())
        self.colour_lists = lists
        self.cmap = make_array("cmap", "int", [(1, 2), (1, width)])
        for col in (1, 2):
            for idx in range(1, width + 1):
                val = lists[col][idx - 1] if idx <= len(lists[col]) else 0
                self.cmap.cell((col, idx)).v = val
        self._obj = ObjVal(self)

    def global_cell(self, cell):
        base = 0 if self.part is None else self.part * self.n
        return (base + self.xs[cell] - 1) % self.nglob

    def neighbour(self, cell, offset):
        """Local cell at chain offset, or None if it is not held locally."""
        x = self.xs[cell] + offset
        if self.part is None:
            x = (x - 1) % self.nglob + 1
        return self.cell_at.get(x)

    # ---- API used by generated code -----------------------------------
    def get_halo_depth(self):
        return self.h

    def get_last_edge_cell(self):
        return self.n if self.part is not None else self.nglob

    def get_last_halo_cell(self, depth=None):
        if depth is None:
            depth = self.h
        self._check_depth(depth, "get_last_halo_cell")
        return self.n + 2 * depth

    def get_ncolours(self):
        return self.ncolours

    def get_colour_map(self):
        return self.cmap

    def _count(self, colour, depth):
        return sum(1 for c in self.colour_lists[colour]
                   if self.cell_depth[c] <= depth)

    def get_last_edge_cell_all_colours(self):
        arr = make_array("last_edge_cell_all_colours", "int", [(1, 2)])
        for col in (1, 2):
            arr.cell((col,)).v = self._count(col, 0)
        return arr

    def get_last_halo_cell_all_colours(self):
        arr = make_array("last_halo_cell_all_colours", "int",
                         [(1, 2), (1, self.h)])
        for col in (1, 2):
            for dep in range(1, self.h + 1):
                arr.cell((col, dep)).v = self._count(col, dep)
        return arr

    def _check_depth(self, depth, what):
        if not isinstance(depth, int) or isinstance(depth, bool):
            raise LFRicAbort(f"{what}: depth {depth!r}")
        if depth < 1 or depth > self.h:
            raise LFRicAbort(f"{what}: depth {depth} out of range 1..{self.h}")


class StencilMap:
    """stencil_dofmap_type: dofmap(ndf, size, ncells), sizes(ncells).  In
    1-D the x1d / cross / region shapes are all {cell-extent..cell+extent};
    entry 1 is the cell itself, then left1, right1, left2, right2, ...
    Neighbours that the partition does not hold are left out (smaller
    size), as at the edge of the halo in LFRic."""

    def __init__(self, fspace, extent):
        mesh = fspace.mesh
        self.extent = extent
        full = 1 + 2 * extent
        self.dofmap = make_array("stencil_dofmap", "int",
                                 [(1, fspace.ndf), (1, full),
                                  (1, mesh.ncells)])
        self.sizes = make_array("stencil_size", "int", [(1, mesh.ncells)])
        for cell in range(1, mesh.ncells + 1):
            cells = [cell]
            for off in range(1, extent + 1):
                for sgn in (-1, 1):
                    ngb = mesh.neighbour(cell, sgn * off)
                    if ngb is not None:
                        cells.append(ngb)
            self.sizes.cell((cell,)).v = len(cells)
            for pos in range(1, full + 1):
                for dof in range(1, fspace.ndf + 1):
                    val = 0
                    if pos <= len(cells):
                        val = fspace.dofmap.cell((dof, cells[pos - 1])).v
                    self.dofmap.cell((dof, pos, cell)).v = val

    def get_whole_dofmap(self):
        return self.dofmap

    def get_stencil_sizes(self):
        return self.sizes


class FunctionSpace:
    """kind 'c' (continuous, DoFs on vertices, ndf=2) or 'd' (discontinuous,
    one DoF per cell)."""

    def __init__(self, mesh, kind):
        self.mesh = mesh
        self.kind = kind
        self.ndf = 2 if kind == "c" else 1
        self.dof_depth = [None]     # per local DoF: OWNED / ANNEXED / d
        self.dof_gid = [None]       # global DoF id
        n, h = mesh.n, mesh.h
        if kind == "d":
            for cell in range(1, mesh.ncells + 1):
                self.dof_depth.append(mesh.cell_depth[cell])
                self.dof_gid.append(mesh.global_cell(cell))
            cellmap = {c: [c] for c in range(1, mesh.ncells + 1)}
        else:
            vert = {}                # chain vertex coordinate -> local DoF
            if mesh.part is None:
                for y in range(1, mesh.nglob + 1):
                    vert[y] = y
                    self.dof_depth.append(OWNED)
                    self.dof_gid.append(y - 1)
                vert[mesh.nglob + 1] = 1
            else:
                def add(y, dep):
                    vert[y] = len(self.dof_depth)
                    self.dof_depth.append(dep)
                    self.dof_gid.append((mesh.part * n + y - 1) % mesh.nglob)
                for y in range(1, n + 1):
                    add(y, OWNED)
                add(n + 1, ANNEXED)
                for dep in range(1, h + 1):
                    add(n + dep + 1, dep)     # new vertex of the right cell
                    add(1 - dep, dep)         # new vertex of the left cell
            cellmap = {}
            for cell in range(1, mesh.ncells + 1):
                x = mesh.xs[cell]
                cellmap[cell] = [vert[x], vert[x + 1]]
        self.undf = len(self.dof_depth) - 1
        self.cell_dofs = cellmap
        self.dofmap = make_array("dofmap", "int",
                                 [(1, self.ndf), (1, mesh.ncells)])
        for cell, dofs in cellmap.items():
            for pos, dof in enumerate(dofs):
                self.dofmap.cell((pos + 1, cell)).v = dof
        self._stencils = {}

    # ---- API used by generated code -----------------------------------
    def get_ndf(self):
        return self.ndf

    def get_undf(self):
        return self.undf

    def get_nlayers(self):
        return 1

    def get_ncell(self):
        return self.mesh.ncells

    def get_mesh(self):
        return self.mesh._obj

    def get_whole_dofmap(self):
        return self.dofmap

    def _last(self, pred):
        last = 0
        for dof in range(1, self.undf + 1):
            if pred(self.dof_depth[dof]):
                last = dof
        return last

    def get_last_dof_owned(self):
        return self._last(lambda d: d == OWNED)

    def get_last_dof_annexed(self):
        return self._last(lambda d: d in (OWNED, ANNEXED))

    def get_last_dof_halo(self, depth=None):
        if depth is None:
            depth = self.mesh.h
        self.mesh._check_depth(depth, "get_last_dof_halo")
        return self._last(lambda d: d <= depth)

    def get_stencil_dofmap(self, shape, extent):
        if not isinstance(extent, int) or extent < 1:
            raise LFRicAbort(f"get_stencil_dofmap: extent {extent!r}")
        if self.mesh.part is not None and extent > self.mesh.h:
            raise LFRicAbort(f"get_stencil_dofmap: extent {extent} larger "
                             f"than the halo depth {self.mesh.h}")
        if extent not in self._stencils:
            self._stencils[extent] = StencilMap(self, extent)
        return ObjVal(self._stencils[extent])


def initial_value(findex, gid):
    """Distinct exact start value of global DoF `gid` of field no. findex."""
    return 1009 * (findex + 1) + 13 * gid + 1


class Field:
    """field_type and field_proxy_type in one object (in LFRic the proxy
    holds pointers to the field's data and halo_dirty array)."""

    def __init__(self, machine, name, findex, fspace, part):
        self.machine = machine
        self.name = name
        self.findex = findex
        self.vspace_obj = fspace
        self.vspace = ObjVal(fspace)
        self.part = part
        # typ None: values are stored as computed (exact ints / Fractions)
        self.data = make_array(name + "_data", None, [(1, fspace.undf)])
        self.halo_dirty = [1] * fspace.mesh.h
        self.inflight = None
        self._obj = ObjVal(self)

    def get_proxy(self):
        return self._obj

    # ---- flags -----------------------------------------------------------
    def is_dirty(self, depth):
        self.vspace_obj.mesh._check_depth(depth, f"{self.name}%is_dirty")
        return self.halo_dirty[depth - 1] == 1

    def set_dirty(self):
        self.halo_dirty = [1] * len(self.halo_dirty)
        self.machine.flags_changed(self, "set_dirty")

    def set_clean(self, depth):
        mesh = self.vspace_obj.mesh
        if not isinstance(depth, int) or depth > mesh.h:
            raise LFRicAbort(f"{self.name}%set_clean: depth {depth!r} out "
                             f"of range")
        for dep in range(1, depth + 1):
            self.halo_dirty[dep - 1] = 0
        self.machine.flags_changed(self, f"set_clean({depth})")

    def clean_depth(self):
        """Largest d such that depths 1..d are all flagged clean."""
        dep = 0
        while dep < len(self.halo_dirty) and self.halo_dirty[dep] == 0:
            dep += 1
        return dep

    # ---- communication ---------------------------------------------------
    def _halo_dofs(self, depth):
        fsp = self.vspace_obj
        return [dof for dof in range(1, fsp.undf + 1)
                if fsp.dof_depth[dof] == ANNEXED
                or 1 <= fsp.dof_depth[dof] <= depth]

    def halo_exchange(self, depth):
        self.vspace_obj.mesh._check_depth(depth, f"{self.name}%halo_exchange")
        if self.inflight is not None:
            raise LFRicAbort(f"{self.name}: halo_exchange while an "
                             f"asynchronous exchange is in flight")
        for dof in self._halo_dofs(depth):
            self.data.cells[dof - 1].v = self.machine.owner_value(self, dof)
        for dep in range(1, depth + 1):
            self.halo_dirty[dep - 1] = 0
        self.machine.count("halo_exchange")
        self.machine.flags_changed(self, f"halo_exchange({depth})")

    def halo_exchange_start(self, depth):
        self.vspace_obj.mesh._check_depth(depth,
                                          f"{self.name}%halo_exchange_start")
        if self.inflight is not None:
            raise LFRicAbort(f"{self.name}: two asynchronous exchanges in "
                             f"flight")
        # The receive buffer (the halo) is undefined until the matching
        # finish; the data sent is the owner's: it must not change in
        # between (checked at finish).
        sent = {}
        for dof in self._halo_dofs(depth):
            sent[dof] = self.machine.owner_value(self, dof)
            self.data.cells[dof - 1].v = POISON
        self.inflight = (depth, sent)
        self.machine.count("halo_exchange_start")

    def halo_exchange_finish(self, depth):
        self.vspace_obj.mesh._check_depth(depth,
                                          f"{self.name}%halo_exchange_finish")
        if self.inflight is None:
            raise LFRicAbort(f"{self.name}: halo_exchange_finish without "
                             f"start")
        sdepth, sent = self.inflight
        self.inflight = None
        for dof, val in sent.items():
            now = self.machine.owner_value(self, dof)
            same = (now is val) if (now is POISON or val is POISON) \
                else now == val
            # data modified by its owner while in flight is undefined
            self.data.cells[dof - 1].v = val if same else POISON
        if sdepth < depth:
            # finish claims more than was started: the rest was never sent
            pass
        for dep in range(1, depth + 1):
            self.halo_dirty[dep - 1] = 0
        self.machine.flags_changed(self, f"halo_exchange_finish({depth})")


class Machine:
    """Two partitions (and their fields) or the serial ring."""

    def __init__(self, ncell=4, depth=3, serial=False):
        self.ncell = ncell
        self.depth = depth
        self.serial = serial
        self.parts = [None] if serial else [0, 1]
        self.meshes = {p: Mesh(ncell, depth, p) for p in self.parts}
        self.spaces = {(p, k): FunctionSpace(self.meshes[p], k)
                       for p in self.parts for k in "cd"}
        self.fields = {}             # (part, name) -> Field
        self.field_names = []
        self.field_kinds = {}
        self.counters = {}
        self.flag_events = []        # (part, field name, what)

    def add_field(self, name, kind):
        findex = len(self.field_names)
        self.field_names.append(name)
        self.field_kinds[name] = kind
        for part in self.parts:
            self.fields[(part, name)] = Field(self, name, findex,
                                              self.spaces[(part, kind)],
                                              part)

    def field(self, part, name):
        return self.fields[(part, name)]

    def count(self, what):
        self.counters[what] = self.counters.get(what, 0) + 1

    def flags_changed(self, field, what):
        self.flag_events.append((field.part, field.name, what))

    # ---- ownership ---------------------------------------------------------
    def owner_of(self, field, dof):
        """(owner partition, owner's local DoF) of a local DoF."""
        fsp = field.vspace_obj
        gid = fsp.dof_gid[dof]
        if self.serial:
            return None, dof
        owner = gid // self.ncell
        return owner, gid - owner * self.ncell + 1

    def owner_value(self, field, dof):
        owner, odof = self.owner_of(field, dof)
        return self.fields[(owner, field.name)].data.cells[odof - 1].v

    # ---- state ---------------------------------------------------------------
    def reset(self, clean_depths, annexed_clean):
        """Initial state: owned DoFs hold initial_value; a halo copy holds
        the owner's value if its depth is within the field's initial clean
        depth, POISON otherwise; annexed copies are valid if
        annexed_clean or the clean depth is >= 1."""
        self.counters = {}
        self.flag_events = []
        for (part, name), fld in self.fields.items():
            fsp = fld.vspace_obj
            cdep = 0 if self.serial else clean_depths[name]
            fld.inflight = None
            fld.halo_dirty = [0 if d < cdep else 1
                              for d in range(fsp.mesh.h)]
            for dof in range(1, fsp.undf + 1):
                dep = fsp.dof_depth[dof]
                val = initial_value(fld.findex, fsp.dof_gid[dof])
                if dep == ANNEXED:
                    if not (annexed_clean or cdep >= 1):
                        val = POISON
                elif dep > cdep:
                    val = POISON
                fld.data.cells[dof - 1].v = val

    def snapshot(self):
        """{(part, field): [values]} of every field copy."""
        return {key: [c.v for c in fld.data.cells]
                for key, fld in self.fields.items()}

    def owned_values(self):
        """{field: {global DoF id: value}} of the owned DoFs."""
        out = {}
        for (part, name), fld in self.fields.items():
            fsp = fld.vspace_obj
            cur = out.setdefault(name, {})
            for dof in range(1, fsp.undf + 1):
                if fsp.dof_depth[dof] == OWNED:
                    cur[fsp.dof_gid[dof]] = fld.data.cells[dof - 1].v
        return out

    def stale_claims(self, only=None):
        """Oracle (2): [(part, field, depth label, local DoF, copy, owner)]
        for every halo/annexed copy inside a depth the proxy claims clean
        whose value differs from the owner's current value."""
        bad = []
        for (part, name), fld in sorted(self.fields.items()):
            if only is not None and name not in only:
                continue
            cdep = fld.clean_depth()
            if cdep == 0:
                continue
            fsp = fld.vspace_obj
            for dof in range(1, fsp.undf + 1):
                dep = fsp.dof_depth[dof]
                if dep == OWNED or (dep != ANNEXED and dep > cdep):
                    continue
                val = fld.data.cells[dof - 1].v
                own = self.owner_value(fld, dof)
                same = (val is own) if (val is POISON or own is POISON) \
                    else val == own
                if not same:
                    bad.append((part, name,
                                "annexed" if dep == ANNEXED else f"h{dep}",
                                dof, val, own))
        return bad
