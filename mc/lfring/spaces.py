"""Bounded spaces of LFRic invokes for C22 (deterministic enumeration).

An argument variant is (access, function-space name, stencil) with stencil
None | [type, 'v'|1|2] (extent supplied by the algorithm layer: a variable
taking the run-time values 1 and 2, or a literal).  A work element is
(spec, BFS depth, transformation kinds).
"""
from mc.lfring import gen

WRITERS = [("inc", "w1"), ("readinc", "w1"), ("write", "w1"),
           ("write", "w3"), ("rw", "w3"),
           ("inc", "any_space_1"), ("readinc", "any_space_1"),
           ("write", "any_space_1")]
ALL_KINDS = ("rc", "colour", "omp", "async", "move", "fuse")


def kind_of(fsname, anykind):
    if fsname in gen.CONT_NAMES:
        return "c"
    if fsname in gen.DISC_NAMES:
        return "d"
    return anykind


def arg(field, variant):
    acc, fsn, sten = (variant + (None,))[:3]
    out = {"f": field, "acc": acc, "fs": fsn}
    if sten:
        out["st"] = list(sten)
    return out


def make_spec(kernels, anykind="c"):
    """kernels: list of ("cell", [(field, variant), ...]) or
    ("bi", name, [fields], kind).  Returns None if a field would have two
    different run-time space kinds."""
    fields = {}
    out = []
    for kern in kernels:
        if kern[0] == "bi":
            _, name, flds, kind = kern
            for fld in flds:
                if fields.setdefault(fld, kind) != kind:
                    return None
            out.append({"kind": "bi", "name": name, "f": list(flds)})
            continue
        args = []
        used = set()
        for fld, variant in kern[1]:
            if fld in used:
                return None
            used.add(fld)
            kind = kind_of(variant[1], anykind)
            if fields.setdefault(fld, kind) != kind:
                return None
            args.append(arg(fld, variant))
        if not any(a["acc"] != "read" for a in args):
            return None
        out.append({"kind": "cell", "args": args})
    return {"fields": fields, "kernels": out}


def readers(fsnames, stencils):
    return [("read", fsn, sten) for fsn in fsnames for sten in stencils]


def stencil_set(types, extents):
    out = [None]
    for typ in types:
        for ext in extents:
            out.append([typ, ext])
    return out


FS3 = ("w1", "w3", "any_space_1")


def compatible_readers(kind, stencils, anykind):
    """Reader variants that can be applied to a field of run-time kind."""
    names = [n for n in FS3 if kind_of(n, anykind) == kind]
    return readers(names, stencils)


def elements(tier):
    """Yield (tag, spec, depth, kinds) -- smallest first, no duplicates."""
    quick = tier == "quick"
    seen = set()

    def emit(tag, spec, depth=0, kinds=()):
        if spec is None:
            return None
        from mc.lfring.core import spec_key
        key = spec_key(spec)
        if (key, depth, tuple(kinds)) in seen:
            return None
        seen.add((key, depth, tuple(kinds)))
        return (tag, spec, depth, tuple(kinds))

    def out(item):
        if item is not None:
            yield item

    anykinds = ("c",) if quick else ("c", "d")
    # ---- A: single kernels, no transformation ---------------------------
    sten_a2 = [None, ["cross", "v"], ["cross", 1], ["cross", 2],
               ["x1d", "v"], ["region", "v"]] if quick else \
        stencil_set(("cross", "x1d", "region"), ("v", 1, 2))
    for anyk in ("c", "d"):
        for wvar in WRITERS:
            yield from out(emit("A1", make_spec(
                [("cell", [("f1", wvar)])], anyk)))
    for anyk in anykinds:
        for wvar in WRITERS:
            for rvar in readers(FS3, sten_a2):
                yield from out(emit("A2", make_spec(
                    [("cell", [("f1", wvar), ("f2", rvar)])], anyk)))
    if quick:       # any_space_1 bound to a discontinuous space
        for wvar in WRITERS:
            for rvar in readers(FS3, [None, ["cross", "v"]]):
                yield from out(emit("A2", make_spec(
                    [("cell", [("f1", wvar), ("f2", rvar)])], "d")))
    for anyk in anykinds:
        for i, wv1 in enumerate(WRITERS):
            for wv2 in WRITERS[i:]:
                yield from out(emit("A3", make_spec(
                    [("cell", [("f1", wv1), ("f2", wv2)])], anyk)))
                yield from out(emit("A3", make_spec(
                    [("cell", [("f2", wv2), ("f1", wv1)])], anyk)))
    for name, nfld in (("setval_c", 1), ("setval_x", 2), ("x_plus_y", 3),
                       ("inc_x_plus_y", 2)):
        for kind in "cd":
            yield from out(emit("A5", make_spec(
                [("bi", name, ["f1", "f2", "f3"][:nfld], kind)])))
    sten_a4 = [None, ["cross", "v"]] if quick else \
        [None, ["cross", "v"], ["region", 2]]
    w_a4 = [WRITERS[0], WRITERS[3], WRITERS[4], WRITERS[6]] if quick \
        else WRITERS
    rd4 = readers(FS3, sten_a4)
    for anyk in anykinds:
        for wvar in w_a4:
            for i, rv1 in enumerate(rd4):
                for rv2 in rd4[i:]:
                    yield from out(emit("A4", make_spec(
                        [("cell", [("f1", wvar), ("f2", rv1),
                                   ("f3", rv2)])], anyk)))
    # ---- C1: single kernels under transformation histories -------------------
    # stencil extents written as LITERALS in the algorithm layer (1 and 2)
    # are explored under transformations next to the variable extents: the
    # literal is added to the loop's redundant-computation depth statically
    sten_c = [None, ["cross", "v"], ["cross", 1], ["cross", 2]] if quick \
        else [None, ["cross", "v"], ["cross", 1], ["cross", 2],
              ["region", 2]]
    depth1 = 1
    for anyk in anykinds:
        for wvar in WRITERS:
            yield from out(emit("C0", make_spec(
                [("cell", [("f1", wvar)])], anyk),
                depth1 + (2 if not quick else
                          1 if wvar in WRITERS[:5] else 0),
                ALL_KINDS))
            for rvar in readers(FS3, sten_c):
                yield from out(emit("C1", make_spec(
                    [("cell", [("f1", wvar), ("f2", rvar)])], anyk),
                    depth1, ALL_KINDS))
    for name, nfld in (("setval_c", 1), ("x_plus_y", 3), ("inc_x_plus_y", 2)):
        for kind in "cd":
            yield from out(emit("C0", make_spec(
                [("bi", name, ["f1", "f2", "f3"][:nfld], kind)]),
                depth1 + (1 if quick else 2), ALL_KINDS))
    # deeper histories on a representative subset
    deep = [(WRITERS[0], ("read", "w3", ["cross", "v"])),
            (WRITERS[0], ("read", "w1", None)),
            (WRITERS[1], ("read", "w1", ["cross", "v"])),
            (WRITERS[3], ("read", "w1", None)),
            (WRITERS[4], ("read", "w3", ["cross", "v"])),
            (WRITERS[7], ("read", "any_space_1", None)),
            (WRITERS[3], ("read", "w1", ["cross", 1])),
            (WRITERS[0], ("read", "w3", ["cross", 1]))]
    if not quick:
        deep = [(w, r) for w in WRITERS[:5]
                for r in readers(("w1", "w3"),
                                 [None, ["cross", "v"], ["cross", 1]])]
    for wvar, rvar in deep:
        yield from out(emit("C2", make_spec(
            [("cell", [("f1", wvar), ("f2", rvar)])], "c"),
            depth1 + 1, ALL_KINDS))
    # ---- B: two kernels, no transformation -------------------------------------
    sten_b = [None, ["cross", "v"]] if quick else \
        [None, ["cross", "v"], ["region", 2]]
    for anyk in anykinds:
        # B1: X written by K1, read by K2 (which writes Z)
        for wv1 in WRITERS:
            xkind = kind_of(wv1[1], anyk)
            for rv2 in compatible_readers(xkind, sten_b, anyk):
                for wv2 in WRITERS:
                    yield from out(emit("B1", make_spec(
                        [("cell", [("f1", wv1)]),
                         ("cell", [("f3", wv2), ("f1", rv2)])], anyk)))
        # B2: X read by K1 (which writes Z), then written by K2
        for wv2 in WRITERS:
            xkind = kind_of(wv2[1], anyk)
            for rv1 in compatible_readers(xkind, sten_b, anyk):
                for wv1 in WRITERS:
                    yield from out(emit("B2", make_spec(
                        [("cell", [("f3", wv1), ("f1", rv1)]),
                         ("cell", [("f1", wv2)])], anyk)))
        # B3: X written twice
        for wv1 in WRITERS:
            for wv2 in WRITERS:
                yield from out(emit("B3", make_spec(
                    [("cell", [("f1", wv1)]),
                     ("cell", [("f1", wv2)])], anyk)))
        # B4: X read twice (one exchange serves two readers)
        w_b4 = [WRITERS[0], WRITERS[3]] if quick else \
            [WRITERS[0], WRITERS[2], WRITERS[3]]
        for xkind in "cd":
            rds = compatible_readers(xkind, sten_b, anyk)
            for wv1 in w_b4:
                for wv2 in w_b4:
                    for rv1 in rds:
                        for rv2 in rds:
                            yield from out(emit("B4", make_spec(
                                [("cell", [("f2", wv1), ("f1", rv1)]),
                                 ("cell", [("f3", wv2), ("f1", rv2)])],
                                anyk)))
        # B5: built-ins with kernels
        for kind in "cd":
            rds = compatible_readers(kind, sten_b, anyk)
            wrs = [w for w in WRITERS if kind_of(w[1], anyk) == kind]
            for wv2 in WRITERS:
                for rv2 in rds:
                    yield from out(emit("B5", make_spec(
                        [("bi", "setval_c", ["f1"], kind),
                         ("cell", [("f3", wv2), ("f1", rv2)])], anyk)))
                    yield from out(emit("B5", make_spec(
                        [("bi", "inc_x_plus_y", ["f1", "f2"], kind),
                         ("cell", [("f3", wv2), ("f1", rv2)])], anyk)))
            for wv1 in wrs:
                yield from out(emit("B5", make_spec(
                    [("cell", [("f1", wv1)]),
                     ("bi", "inc_x_plus_y", ["f2", "f1"], kind)], anyk)))
                yield from out(emit("B5", make_spec(
                    [("cell", [("f1", wv1)]),
                     ("bi", "setval_c", ["f1"], kind)], anyk)))
                yield from out(emit("B5", make_spec(
                    [("bi", "setval_c", ["f1"], kind),
                     ("cell", [("f1", wv1)])], anyk)))
                for rv1 in rds:
                    yield from out(emit("B5", make_spec(
                        [("cell", [("f3", wv1), ("f1", rv1)]),
                         ("bi", "setval_c", ["f1"], kind)], anyk)))
    # ---- C3: two kernels under transformation histories -------------------------
    pair_w = [WRITERS[0], WRITERS[3]] if quick else \
        [WRITERS[0], WRITERS[1], WRITERS[2], WRITERS[3], WRITERS[4],
         WRITERS[5]]
    pair_st = [None, ["cross", "v"]]
    for wv1 in pair_w:
        xkind = kind_of(wv1[1], "c")
        for rv2 in compatible_readers(xkind, pair_st, "c"):
            for wv2 in pair_w:
                yield from out(emit("C3", make_spec(
                    [("cell", [("f1", wv1)]),
                     ("cell", [("f3", wv2), ("f1", rv2)])], "c"),
                    depth1, ALL_KINDS))
    for kind in "cd":
        for rv2 in compatible_readers(kind, pair_st, "c"):
            for wv2 in pair_w:
                yield from out(emit("C3", make_spec(
                    [("bi", "setval_c", ["f1"], kind),
                     ("cell", [("f3", wv2), ("f1", rv2)])], "c"),
                    depth1, ALL_KINDS))
    for kind in "cd":
        yield from out(emit("C3", make_spec(
            [("bi", "setval_c", ["f1"], kind),
             ("bi", "inc_x_plus_y", ["f2", "f1"], kind)]),
            depth1 + 1, ALL_KINDS))
    # fusable pairs: same iteration space, shared read field
    fuse_w = (WRITERS[3], WRITERS[0]) if quick else \
        (WRITERS[3], WRITERS[4], WRITERS[0])
    fuse_r = [("read", "w3", None), ("read", "w1", None)] if quick else \
        compatible_readers("d", pair_st, "c")[:2] + \
        compatible_readers("c", [None], "c")[:1]
    for wvar in fuse_w:
        for rvar in fuse_r:
            yield from out(emit("C3", make_spec(
                [("cell", [("f1", wvar), ("f3", rvar)]),
                 ("cell", [("f2", wvar), ("f3", rvar)])], "c"),
                depth1 + 1, ALL_KINDS))
    if quick:
        return
    # ---- D (thorough): three kernels, no transformation ---------------------------
    tri_w = [WRITERS[0], WRITERS[3], WRITERS[2]]
    for wv1 in tri_w:
        xkind = kind_of(wv1[1], "c")
        for rv in compatible_readers(xkind, pair_st, "c"):
            for wv2 in tri_w:
                for wv3 in tri_w:
                    # write X; read X (write Y); rewrite X / read X again
                    yield from out(emit("D1", make_spec(
                        [("cell", [("f1", wv1)]),
                         ("cell", [("f2", wv2), ("f1", rv)]),
                         ("cell", [("f1", wv3)])], "c")))
                    yield from out(emit("D1", make_spec(
                        [("cell", [("f1", wv1)]),
                         ("cell", [("f2", wv2), ("f1", rv)]),
                         ("cell", [("f3", wv3), ("f1", rv)])], "c")))
                    yield from out(emit("D1", make_spec(
                        [("cell", [("f1", wv1)]),
                         ("cell", [("f2", wv2), ("f1", rv)]),
                         ("cell", [("f3", wv3), ("f2", (
                             "read", wv2[1], rv[2]))])], "c")))
    for wv1 in tri_w:
        xkind = kind_of(wv1[1], "c")
        for rv in compatible_readers(xkind, pair_st, "c"):
            yield from out(emit("D2", make_spec(
                [("bi", "setval_c", ["f1"], xkind),
                 ("cell", [("f1", wv1)]),
                 ("cell", [("f3", WRITERS[3]), ("f1", rv)])], "c"),
                1, ALL_KINDS))
