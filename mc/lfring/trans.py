"""Transformation histories on an LFRic invoke schedule.

An operation is a JSON-able list; node positions refer to the schedule at
the time the operation is applied (walk order):

  ["rc", loop#, depth|None]      Dynamo0p3RedundantComputationTrans
  ["colour", loop#]              Dynamo0p3ColourTrans
  ["ompdo", loop#]               DynamoOMPParallelLoopTrans
  ["ompreg", loop#, nloops]      OMPParallelTrans around nloops adjacent
                                 top-level nodes starting at the loop (or its
                                 enclosing directive), then
                                 Dynamo0p3OMPLoopTrans on each plain loop
  ["async", hx#]                 Dynamo0p3AsyncHaloExchangeTrans
  ["move", hx#, child#, pos]     MoveTrans of a halo exchange (start / end)
                                 before|after top-level child#
  ["fuse", loop#, same_space]    LFRicLoopFuseTrans of loop# and its next
                                 sibling
"""


def _mods():
    from psyclone import transformations as T
    from psyclone.domain.lfric.transformations import LFRicLoopFuseTrans
    from psyclone.domain.lfric import LFRicLoop
    from psyclone.dynamo0p3 import (LFRicHaloExchange, LFRicHaloExchangeStart,
                                    LFRicHaloExchangeEnd)
    return T, LFRicLoopFuseTrans, LFRicLoop, LFRicHaloExchange, \
        LFRicHaloExchangeStart, LFRicHaloExchangeEnd


def loops_of(sched):
    from psyclone.domain.lfric import LFRicLoop
    return sched.walk(LFRicLoop)


def exchanges_of(sched):
    from psyclone.dynamo0p3 import LFRicHaloExchange
    return sched.walk(LFRicHaloExchange)


def _top(node, sched):
    """Ancestor-or-self of node that is a direct child of the schedule."""
    while node.parent is not sched:
        node = node.parent
    return node


def apply_op(sched, oper):
    """Apply one operation with the real transformation; raises
    TransformationError (or whatever the transformation raises)."""
    from psyclone.psyir.nodes import Loop
    T, Fuse, _, _, _, _ = _mods()
    kind = oper[0]
    if kind == "rc":
        loop = loops_of(sched)[oper[1]]
        opts = {"depth": oper[2]} if oper[2] is not None else None
        T.Dynamo0p3RedundantComputationTrans().apply(loop, opts)
    elif kind == "colour":
        T.Dynamo0p3ColourTrans().apply(loops_of(sched)[oper[1]])
    elif kind == "ompdo":
        T.DynamoOMPParallelLoopTrans().apply(loops_of(sched)[oper[1]])
    elif kind == "ompreg":
        loop = loops_of(sched)[oper[1]]
        first = _top(loop, sched)
        if first is not loop and not isinstance(first, Loop):
            raise ValueError("ompreg target is inside a directive")
        pos = first.position
        nodes = sched.children[pos:pos + oper[2]]
        if len(nodes) != oper[2]:
            raise ValueError("ompreg range")
        inner = []
        for node in nodes:
            if not isinstance(node, Loop):
                raise ValueError("ompreg over a non-loop")
            cand = [lp for lp in node.walk(Loop)
                    if lp.loop_type != "colours"]
            inner.extend(cand)
        if any(node.loop_type == "colours" for node in nodes):
            # the parallel region goes round the inner (colour) loops
            if len(nodes) != 1:
                raise ValueError("ompreg over several coloured loops")
            T.OMPParallelTrans().apply(inner)
        else:
            T.OMPParallelTrans().apply(nodes)
        for lp in inner:
            T.Dynamo0p3OMPLoopTrans().apply(lp)
    elif kind == "async":
        T.Dynamo0p3AsyncHaloExchangeTrans().apply(exchanges_of(sched)[oper[1]])
    elif kind == "move":
        node = exchanges_of(sched)[oper[1]]
        T.MoveTrans().apply(node, sched.children[oper[2]],
                            {"position": oper[3]})
    elif kind == "fuse":
        loop = loops_of(sched)[oper[1]]
        nxt = loop.parent.children[loop.position + 1]
        opts = {"same_space": True} if oper[2] else None
        Fuse().apply(loop, nxt, opts)
    else:
        raise ValueError(f"unknown operation {oper}")


def candidates(sched, kinds):
    """All operations worth trying on this schedule (deterministic order)."""
    from psyclone.psyir.nodes import Loop
    _, _, _, HX, HXS, HXE = _mods()
    ops = []
    loops = loops_of(sched)
    for idx, loop in enumerate(loops):
        if "rc" in kinds and loop.loop_type != "colours":
            for depth in (1, 2, 3, None):
                ops.append(["rc", idx, depth])
        if "colour" in kinds and loop.loop_type == "":
            ops.append(["colour", idx])
        if "omp" in kinds and loop.loop_type != "colours":
            ops.append(["ompdo", idx])
        if "omp" in kinds and loop.parent is sched:
            ops.append(["ompreg", idx, 1])
            pos = loop.position
            if pos + 1 < len(sched.children) and \
                    isinstance(sched.children[pos + 1], Loop):
                ops.append(["ompreg", idx, 2])
        if "fuse" in kinds and loop.parent is not None:
            sibs = loop.parent.children
            if loop.position + 1 < len(sibs) and \
                    isinstance(sibs[loop.position + 1], Loop):
                ops.append(["fuse", idx, False])
                ops.append(["fuse", idx, True])
    for idx, hxn in enumerate(exchanges_of(sched)):
        if "async" in kinds and type(hxn) is HX:
            ops.append(["async", idx])
        if "move" in kinds and hxn.parent is sched:
            for cpos, child in enumerate(sched.children):
                if child is hxn:
                    continue
                if cpos != hxn.position + 1:
                    ops.append(["move", idx, cpos, "before"])
            if hxn.position != len(sched.children) - 1:
                ops.append(["move", idx, len(sched.children) - 1, "after"])
    return ops


def op_text(oper):
    return oper[0] + "(" + ",".join("max" if x is None else str(x)
                                    for x in oper[1:]) + ")"


def history_text(hist):
    return ";".join(op_text(o) for o in hist) if hist else "-"
