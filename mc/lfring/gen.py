"""Invoke specification -> LFRic algorithm + kernel metadata files -> real
PSyclone PSy object (API "dynamo0.3", distributed memory on) -> transformed
schedule -> generated PSy-layer text.

An *invoke spec* is a JSON-able dict::

    {"fields": {"f1": "c", "f2": "d", "f3": "c"},        # run-time space kind
     "kernels": [
        {"kind": "cell",
         "args": [{"f": "f1", "acc": "inc", "fs": "w1"},
                  {"f": "f2", "acc": "read", "fs": "w3",
                   "st": ["cross", "v"]}]},              # extent 'v' | 1 | 2
        {"kind": "bi", "name": "setval_c", "f": ["f1"]}]}

Run-time space kinds: "c" = continuous (DoFs on vertices), "d" =
discontinuous (one DoF per cell).  The function-space *name* in the
metadata (w0/w1/w2/w3/any_space_1, ...) is what PSyclone sees.
"""
import os

ACCESS_META = {"read": "gh_read", "write": "gh_write", "inc": "gh_inc",
               "readinc": "gh_readinc", "rw": "gh_readwrite"}
ACC_CODE = {"read": "r", "write": "w", "inc": "i", "readinc": "q", "rw": "x"}
FS_CODE = {"w0": "0", "w1": "1", "w2": "2", "w3": "3", "wtheta": "t",
           "any_space_1": "a", "any_discontinuous_space_1": "b"}
CONT_NAMES = ("w0", "w1", "w2")
DISC_NAMES = ("w3", "wtheta", "any_discontinuous_space_1")
STENCIL_CONST = {"x1d": "STENCIL_1DX", "cross": "STENCIL_CROSS",
                 "region": "STENCIL_REGION", "y1d": "STENCIL_1DY"}

BUILTINS = {
    # name -> list of (access of each field argument), scalar position/None
    "setval_c": (["write"], 1),
    "x_plus_y": (["write", "read", "read"], None),
    "inc_x_plus_y": (["rw", "read"], None),
    "setval_x": (["write", "read"], None),
}
SETVAL_CONST = "0.5_r_def"


def kernel_name(kern):
    """Deterministic kernel name encoding the metadata (same name <=> same
    metadata)."""
    parts = []
    for arg in kern["args"]:
        code = ACC_CODE[arg["acc"]] + FS_CODE[arg["fs"]]
        sten = arg.get("st")
        if sten:
            code += sten[0][0] + ("m" + str(sten[2]) if len(sten) > 2
                                  and sten[2] else "")
        parts.append(code)
    return "k_" + "_".join(parts)


def kernel_source(kern):
    name = kernel_name(kern)
    lines = []
    for arg in kern["args"]:
        text = f"arg_type(gh_field, gh_real, {ACCESS_META[arg['acc']]}, " \
               f"{arg['fs']}"
        sten = arg.get("st")
        if sten:
            if len(sten) > 2 and sten[2]:
                text += f", stencil({sten[0]},{sten[2]})"
            else:
                text += f", stencil({sten[0]})"
        lines.append(text + ")")
    meta = ", &\n          ".join(lines)
    return f"""module {name}_mod
  use argument_mod
  use fs_continuity_mod
  use kernel_mod
  use constants_mod
  implicit none
  type, extends(kernel_type) :: {name}_type
     type(arg_type), dimension({len(kern['args'])}) :: meta_args = &
       (/ {meta} &
        /)
     integer :: operates_on = cell_column
   contains
     procedure, nopass :: code => {name}_code
  end type {name}_type
contains
  subroutine {name}_code()
  end subroutine {name}_code
end module {name}_mod
"""


def extent_name(kidx, arg):
    return f"ext_{kidx}_{arg['f']}"


def algorithm_source(spec):
    uses = []
    calls = []
    extents = []
    for kidx, kern in enumerate(spec["kernels"]):
        if kern["kind"] == "bi":
            args = list(kern["f"])
            scal = BUILTINS[kern["name"]][1]
            if scal is not None:
                args.insert(scal, SETVAL_CONST)
            calls.append(f"{kern['name']}({', '.join(args)})")
            continue
        name = kernel_name(kern)
        use = f"  use {name}_mod, only: {name}_type"
        if use not in uses:
            uses.append(use)
        args = []
        for arg in kern["args"]:
            args.append(arg["f"])
            sten = arg.get("st")
            if sten and not (len(sten) > 2 and sten[2]):
                if sten[1] == "v":
                    ename = extent_name(kidx, arg)
                    extents.append(ename)
                    args.append(ename)
                else:
                    args.append(str(sten[1]))
        calls.append(f"{name}_type({', '.join(args)})")
    fields = ", ".join(sorted(spec["fields"]))
    decl_ext = "".join(f"  integer(i_def) :: {e}\n" for e in extents)
    body = ", &\n       ".join(calls)
    return f"""program alg
  use constants_mod, only: r_def, i_def
  use field_mod, only: field_type
{chr(10).join(uses)}
  implicit none
  type(field_type) :: {fields}
{decl_ext}  call invoke( &
       {body} )
end program alg
""", extents


def write_files(spec, directory):
    """Write algorithm + kernel files; return (algorithm path, extent
    variable names in order)."""
    os.makedirs(directory, exist_ok=True)
    for kern in spec["kernels"]:
        if kern["kind"] != "cell":
            continue
        path = os.path.join(directory, kernel_name(kern) + "_mod.f90")
        if not os.path.exists(path):
            with open(path, "w", encoding="utf-8") as fout:
                fout.write(kernel_source(kern))
    text, extents = algorithm_source(spec)
    path = os.path.join(directory, "alg.f90")
    with open(path, "w", encoding="utf-8") as fout:
        fout.write(text)
    return path, extents


def reset_psyclone(annexed):
    """Fresh Config for one (invoke, annexed) element."""
    from psyclone.configuration import Config
    Config._instance = None
    cfg = Config.get()
    cfg.api = "dynamo0.3"
    cfg.distributed_memory = True
    cfg.api_conf("lfric")._compute_annexed_dofs = bool(annexed)
    return cfg


def make_psy(spec, directory, annexed):
    """Real PSyclone front end: parse the algorithm file and create the
    distributed-memory PSy object."""
    from psyclone.parse.algorithm import parse
    from psyclone.psyGen import PSyFactory
    reset_psyclone(annexed)
    path, extents = write_files(spec, directory)
    _, info = parse(path, api="dynamo0.3", kernel_paths=[directory])
    psy = PSyFactory("dynamo0.3", distributed_memory=True).create(info)
    return psy, extents


def schedule_of(psy):
    return psy.invokes.invoke_list[0].schedule
