"""Exploration of one invoke: transformation histories x initial halo states,
executed on the ring machine and judged against the global serial run."""
import itertools

from mc.fortsem.interp import UB
from mc.lfring import execpsy, gen, kernels, ring, trans

NCELL, DEPTH = 4, 3


# ---------------------------------------------------------------------------
# keys
# ---------------------------------------------------------------------------
def spec_key(spec):
    parts = []
    for kern in spec["kernels"]:
        if kern["kind"] == "bi":
            parts.append(f"{kern['name']}[{','.join(kern['f'])}]")
            continue
        args = []
        for arg in kern["args"]:
            text = arg["f"]
            sten = arg.get("st")
            if sten and not (len(sten) > 2 and sten[2]):
                text += f"^{sten[1]}"
            args.append(text)
        parts.append(f"{gen.kernel_name(kern)}[{','.join(args)}]")
    kinds = "".join(f"{n[1:]}{k}" for n, k in sorted(spec["fields"].items()))
    return "+".join(parts) + "|" + kinds


# ---------------------------------------------------------------------------
# PSyclone front end with memoised kernel-metadata objects
# ---------------------------------------------------------------------------
_META_MEMO = {}
_MEMO_ON = False


def enable_metadata_memo():
    """Kernel metadata objects (LFRicKernMetadata) are pure functions of the
    kernel source and are only read afterwards; parsing them costs ~0.3 s
    each, so they are shared between invokes of one worker.  Checked by
    memo_selfcheck()."""
    global _MEMO_ON
    if _MEMO_ON:
        return
    _MEMO_ON = True
    from psyclone.parse import algorithm as alg
    from psyclone.parse import kernel as kmod

    class MemoFactory(kmod.KernelTypeFactory):
        def create(self, parse_tree, name=None):
            key = ("k", self._type, name, str(parse_tree))
            if key not in _META_MEMO:
                _META_MEMO[key] = super().create(parse_tree, name=name)
            return _META_MEMO[key]

    class MemoBuiltinFactory(kmod.BuiltInKernelTypeFactory):
        def create(self, builtin_names, builtin_defs_file, name=None):
            key = ("b", self._type, builtin_defs_file, name)
            if key not in _META_MEMO:
                _META_MEMO[key] = super().create(builtin_names,
                                                 builtin_defs_file, name=name)
            return _META_MEMO[key]

    alg.KernelTypeFactory = MemoFactory
    alg.BuiltInKernelTypeFactory = MemoBuiltinFactory


def disable_metadata_memo():
    global _MEMO_ON
    from psyclone.parse import algorithm as alg
    from psyclone.parse import kernel as kmod
    alg.KernelTypeFactory = kmod.KernelTypeFactory
    alg.BuiltInKernelTypeFactory = kmod.BuiltInKernelTypeFactory
    _MEMO_ON = False
    _META_MEMO.clear()


class Invoke:
    """Front-end state of one invoke spec (parse once, create many)."""

    def __init__(self, spec, directory):
        from psyclone.parse.algorithm import parse
        self.spec = spec
        gen.reset_psyclone(False)
        path, self.extent_names = gen.write_files(spec, directory)
        _, self.info = parse(path, api="dynamo0.3", kernel_paths=[directory])

    def build(self, hist):
        """Fresh PSy object with the history applied (Config must be set)."""
        from psyclone.psyGen import PSyFactory
        psy = PSyFactory("dynamo0.3", distributed_memory=True).create(
            self.info)
        sched = gen.schedule_of(psy)
        for oper in hist:
            trans.apply_op(sched, oper)
        return psy, sched


def view_of(sched):
    """Text of the schedule (used to recognise equal schedules reached by
    different histories).  Computing it asks every halo exchange for its
    depth, which can already raise the GenerationError that psy.gen would
    raise."""
    return sched.view(colour=False)


# ---------------------------------------------------------------------------
# loop fusion: only histories whose fused loops have the serial semantics of
# the unfused kernel sequence are judged (LFRicLoopFuseTrans does not check
# data dependences -- that is another property's subject)
# ---------------------------------------------------------------------------
def fused_loops_serially_valid(sched, spec):
    from psyclone.domain.lfric import LFRicLoop, LFRicKern
    from psyclone.domain.lfric.lfric_builtins import LFRicBuiltIn
    for loop in sched.walk(LFRicLoop):
        kerns = [k for k in loop.walk((LFRicKern, LFRicBuiltIn))]
        if len(kerns) < 2 or loop.loop_type == "colours" and False:
            continue
        if loop.loop_type == "dof":
            continue                # pointwise
        uses = {}
        for kern in kerns:
            for arg in kern.arguments.args:
                if not arg.is_field:
                    continue
                sten = bool(getattr(arg.descriptor, "stencil", None))
                uses.setdefault(arg.name, []).append(
                    (arg.access.name.lower(), sten))
        for name, lst in uses.items():
            if len(lst) < 2 or all(a == "read" for a, _ in lst):
                continue
            if all(a == "inc" for a, _ in lst):
                continue
            if spec["fields"][name] == "d" and not any(s for _, s in lst):
                continue
            return False
    return True


# ---------------------------------------------------------------------------
# execution of one generated PSy layer
# ---------------------------------------------------------------------------
class Executor:
    def __init__(self):
        self.machines = {}
        self.serial = {}

    def machine(self, spec):
        key = tuple(sorted(spec["fields"].items()))
        if key not in self.machines:
            mach = ring.Machine(NCELL, DEPTH)
            for name, kind in key:
                mach.add_field(name, kind)
            self.machines[key] = mach
        return self.machines[key]

    def reference(self, spec, skey, extents):
        key = (skey, tuple(sorted(extents.items())))
        if key not in self.serial:
            if len(self.serial) > 2000:
                self.serial.clear()
            self.serial[key] = kernels.serial_run(spec, extents, NCELL)
        return self.serial[key]

    def execute(self, code, spec, skey, extent_names, annexed):
        """Run the PSy layer text for every extent valuation x initial halo
        state.  Returns {"runs": n, "findings": {sig: [case, ...]},
        "aborts": {text: n}}."""
        mach = self.machine(spec)
        program = execpsy.PsyProgram(code, spec)
        names = sorted(spec["fields"])
        out = {"runs": 0, "findings": {}, "aborts": {}}
        for evals in itertools.product((1, 2), repeat=len(extent_names)):
            extents = dict(zip(extent_names, evals))
            ref = self.reference(spec, skey, extents)
            runner = execpsy.Runner(mach, program, extent_names)
            mach.reset({n: 0 for n in names}, annexed)
            etext = ",".join(f"{k}={v}" for k, v in sorted(extents.items()))
            try:
                runner.prepare(extents)
            except ring.LFRicAbort as err:
                key = f"prologue:{err}"
                out["aborts"][key] = out["aborts"].get(key, 0) + 1
                continue
            for state in itertools.product(range(DEPTH + 1),
                                           repeat=len(names)):
                mach.reset(dict(zip(names, state)), annexed)
                out["runs"] += 1
                case = f"{etext}/{''.join(map(str, state))}"
                try:
                    runner.run_body()
                except ring.LFRicAbort as err:
                    key = f"abort:{err}"
                    out["aborts"][key] = out["aborts"].get(key, 0) + 1
                    continue
                except UB as err:
                    key = f"ub:{err.kind}:{err}"
                    out["aborts"][key] = out["aborts"].get(key, 0) + 1
                    continue
                sigs = []
                for kidx, aidx, fname, dep, how in sorted(runner.dirty_reads):
                    sigs.append(f"dirty-read:k{kidx}.a{aidx}({fname}):"
                                f"{dep}:{how}")
                if not sigs:
                    seen = set()
                    for fname, dep, how, what in runner.claims:
                        sig = f"claim:{fname}:{dep}:{how}@{what}"
                        if sig not in seen:
                            seen.add(sig)
                            sigs.append(sig)
                    sigs.sort()
                if not sigs:
                    got = mach.owned_values()
                    for fname in names:
                        if any(not kernels.same(got[fname][g], ref[fname][g])
                               for g in ref[fname]):
                            sigs.append(f"owned:{fname}")
                for sig in sigs:
                    out["findings"].setdefault(sig, []).append(case)
        return out


def summarise_cases(cases, total):
    if len(cases) == total:
        return "all"
    return f"{len(cases)}of{total}:" + cases[0]


# ---------------------------------------------------------------------------
# exploration of one (invoke, annexed)
# ---------------------------------------------------------------------------
def explore(invoke, annexed, max_depth, kinds, executor, max_states=None,
            only_history=None):
    """BFS over accepted transformation histories of length <= max_depth.

    Returns a dict with counters, outcome classes and violation records."""
    from psyclone.errors import (GenerationError, InternalError,
                                 PSycloneError)
    from psyclone.psyir.transformations import TransformationError
    spec = invoke.spec
    skey = spec_key(spec)
    gen.reset_psyclone(annexed)
    res = {"states": 0, "transitions": 0, "executed": 0, "runs": 0,
           "classes": {}, "viol": [], "sample": None}

    def bump(name, num=1):
        res["classes"][name] = res["classes"].get(name, 0) + num

    seen_views = {}
    seen_code = {}
    frontier = [[]]
    if only_history is not None:
        frontier = [list(only_history)]
        max_depth = 0
    level = 0
    first = True
    while frontier:
        nxt = []
        for hist in frontier:
            try:
                psy, sched = invoke.build(hist)
            except TransformationError:
                if only_history is not None:
                    bump("replay-refused")
                    continue
                raise
            if first:
                seen_views[view_of(sched)] = []
                first = False
            unviewable = False
            try:
                view_of(sched)
            except PSycloneError:
                unviewable = True
            res["states"] += 1
            htext = trans.history_text(hist)
            # ---- generate and execute this state -------------------------
            if not unviewable and \
                    not fused_loops_serially_valid(sched, spec):
                bump("fuse-not-serially-valid-skipped")
            else:
                try:
                    code = str(psy.gen)
                except GenerationError as err:
                    bump("gen-refused:" + _short(str(err)))
                    code = None
                except InternalError as err:
                    bump("gen-internal-error:" + _short(str(err)))
                    code = None
                except PSycloneError as err:
                    # e.g. VisitorError wrapping the GenerationError of a
                    # directive applied twice to the same loop
                    bump(f"gen-refused-{type(err).__name__}:"
                         + _short(str(err)))
                    code = None
                if code is not None:
                    if code in seen_code:
                        bump("same-code-as-earlier-history")
                    else:
                        seen_code[code] = htext
                        out = executor.execute(code, spec, skey,
                                               invoke.extent_names, annexed)
                        res["executed"] += 1
                        res["runs"] += out["runs"]
                        for key, num in out["aborts"].items():
                            bump("run-" + _short(key), num)
                        total = out["runs"]
                        if out["findings"]:
                            bump("violating-state")
                            res["viol"].append(_violation(
                                skey, spec, annexed, hist, out, total, code))
                        else:
                            bump("clean")
                        if res["sample"] is None and hist:
                            res["sample"] = {
                                "invoke": skey, "annexed": annexed,
                                "history": htext, "runs": out["runs"],
                                "halo_exchanges": code.count("%halo_exchange")}
            # ---- expand -----------------------------------------------------
            if level >= max_depth or unviewable:
                continue
            # validate-only pass on this object, then replay for accepted
            for oper in trans.candidates(sched, kinds):
                res["transitions"] += 1
                try:
                    psy2, sched2 = invoke.build(hist + [oper])
                except TransformationError:
                    bump("refused:" + oper[0])
                    continue
                except PSycloneError as err:
                    bump(f"refused-{type(err).__name__}:" + oper[0])
                    continue
                except ValueError:
                    bump("not-applicable:" + oper[0])
                    continue
                try:
                    view = view_of(sched2)
                except PSycloneError:
                    # accepted, but code generation will refuse: the state
                    # is kept (its psy.gen outcome is recorded) but not
                    # compared with other schedules
                    view = "unviewable:" + trans.history_text(hist + [oper])
                if view in seen_views:
                    bump("accepted-duplicate-schedule:" + oper[0])
                    continue
                seen_views[view] = hist + [oper]
                bump("accepted:" + oper[0])
                nxt.append(hist + [oper])
                if max_states and len(seen_views) >= max_states:
                    break
        frontier = nxt
        level += 1
    return res


def _short(text):
    text = " ".join(text.split())
    for junk in ("Generation Error: ", "Transformation Error: "):
        text = text.replace(junk, "")
    return text[:70]


KNOWN_MECHANISM = ("gh_write-kernel-on-discontinuous-space-reads-annexed-"
                   "dofs-without-exchange|ann=0")


def _is_write_disc_annexed(spec, annexed, finding):
    """True iff the finding is exactly: with COMPUTE_ANNEXED_DOFS off, a
    kernel all of whose updates are GH_WRITE and that writes a field on a
    space declared discontinuous consumed a dirty ANNEXED DoF of a
    continuous / any_space field it reads without stencil."""
    import re
    mat = re.fullmatch(r"dirty-read:k(\d+)\.a(\d+)\((\w+)\):annexed:\w+",
                       finding)
    if not mat or annexed:
        return False
    kern = spec["kernels"][int(mat.group(1))]
    if kern["kind"] != "cell":
        return False
    written = [a for a in kern["args"] if a["acc"] != "read"]
    if any(a["acc"] != "write" for a in written):
        return False
    if not any(a["fs"] in gen.DISC_NAMES for a in written):
        return False
    arg = kern["args"][int(mat.group(2))]
    return arg["acc"] == "read" and not arg.get("st") and \
        arg["fs"] not in gen.DISC_NAMES


def _violation(skey, spec, annexed, hist, out, total, code):
    htext = trans.history_text(hist)
    finds = sorted(out["findings"])
    parts = [f"{sig}[{summarise_cases(out['findings'][sig], total)}]"
             for sig in finds]
    sig = f"{skey}|ann={int(annexed)}|{htext}|" + ",".join(finds)
    if all(_is_write_disc_annexed(spec, annexed, f) for f in finds):
        # one mechanism, thousands of invokes: named by its input class
        sig = KNOWN_MECHANISM
    msg = (f"invoke {skey} (COMPUTE_ANNEXED_DOFS={annexed}) after "
           f"transformations [{htext}]: the generated PSy layer, executed on "
           f"the two-partition ring, gives " + "; ".join(parts) +
           f" (cases are <extent values>/<initial clean depth per field>, "
           f"{total} executed).  dirty-read = a kernel computing an owned "
           f"cell consumed a halo/annexed copy that differs from the owner's "
           f"value; claim = a copy inside the depth the proxy records as "
           f"clean differs from the owner's value; owned = owned DoFs differ "
           f"from the global serial run.")
    return {"key": f"{skey}|ann={int(annexed)}|{htext}", "sig": sig,
            "msg": msg,
            "case": {"spec": spec, "annexed": annexed, "history": hist,
                     "findings": {s: out["findings"][s][:8] for s in finds}}}
