"""Executes a generated LFRic PSy layer (text) on the ring machine.

The text is re-read with PSyclone's FortranReader and interpreted by E1
(mc.fortsem.interp) -- once per partition, statement by statement in
lock-step -- with the run-time objects (field, proxy, function space, mesh,
stencil map) provided by mc.lfring.ring as Python objects (ObjVal).
"""
from fractions import Fraction

from fparser.two import Fortran2003 as F
from psyclone.psyir import nodes as N
from psyclone.psyir.symbols import (ArrayType, DataTypeSymbol,
                                    UnsupportedFortranType)

from mc.fortsem.interp import (ArrayVal, ArrVal, Cell, Frame, Interp, ObjVal,
                               POISON, UB)
from mc.lfring import kernels
from mc.lfring.ring import ANNEXED, OWNED

STENCIL_NAMES = {"stencil_cross": "cross", "stencil_region": "region",
                 "stencil_1dx": "x1d", "stencil_1dy": "y1d",
                 "stencil_2d_cross": "cross2d"}


class ModelError(Exception):
    """The executor met something it does not model (harness error)."""


# ---------------------------------------------------------------------------
# evaluation of the fparser2 fragments kept in CodeBlocks
# ---------------------------------------------------------------------------
class AstEval:
    def __init__(self, interp, frame, table):
        self.interp = interp
        self.frame = frame
        self.table = table

    def storage(self, name):
        low = name.lower()
        if low in STENCIL_NAMES:
            return STENCIL_NAMES[low]
        sym = self.table.lookup(low)
        return self.interp.storage(sym, self.frame)

    def value(self, ast):
        """Python value / ObjVal / ArrayVal of an expression."""
        if isinstance(ast, F.Name):
            stor = self.storage(ast.string)
            if isinstance(stor, Cell):
                if stor.v is POISON:
                    raise UB("poison-control", f"undefined '{ast.string}'")
                return stor.v
            return stor
        if isinstance(ast, F.Int_Literal_Constant):
            return int(ast.items[0])
        if isinstance(ast, F.Parenthesis):
            return self.value(ast.items[1])
        if isinstance(ast, (F.Level_2_Expr, F.Add_Operand)):
            lhs, oper, rhs = ast.items
            lhs, rhs = self.value(lhs), self.value(rhs)
            if not (isinstance(lhs, int) and isinstance(rhs, int)):
                raise ModelError(f"non-integer operands in '{ast}'")
            if oper == "+":
                return lhs + rhs
            if oper == "-":
                return lhs - rhs
            if oper == "*":
                return lhs * rhs
            raise ModelError(f"operator in '{ast}'")
        if isinstance(ast, F.Intrinsic_Function_Reference):
            name = str(ast.items[0]).lower()
            args = [self.value(a) for a in self._arglist(ast.items[1])]
            if name == "max":
                return max(args)
            if name == "min":
                return min(args)
            raise ModelError(f"intrinsic in '{ast}'")
        if isinstance(ast, F.Data_Ref):
            return self.data_ref(ast.items)
        if isinstance(ast, F.Function_Reference):
            desig, args = ast.items
            if not isinstance(desig, F.Procedure_Designator):
                raise ModelError(f"function reference '{ast}'")
            base, _, name = desig.items
            obj = self.value(base)
            return self.call(obj, name.string, args)
        if isinstance(ast, F.Part_Ref):
            # array element of a local array
            stor = self.storage(ast.items[0].string)
            idx = tuple(self.value(a) for a in self._arglist(ast.items[1]))
            return stor.cell(idx).v
        raise ModelError(f"unsupported fragment {type(ast).__name__}: {ast}")

    @staticmethod
    def _arglist(args):
        if args is None:
            return []
        if isinstance(args, (F.Actual_Arg_Spec_List, F.Section_Subscript_List)):
            return list(args.items)
        return [args]

    def call(self, obj, name, args):
        if not isinstance(obj, ObjVal):
            raise ModelError(f"type-bound call '{name}' on {obj!r}")
        proc = obj.member(name.lower())
        pos, kws = [], {}
        for arg in self._arglist(args):
            if isinstance(arg, F.Actual_Arg_Spec):
                kws[arg.items[0].string.lower()] = self.value(arg.items[1])
            else:
                pos.append(self.value(arg))
        return self._wrap(proc(*pos, **kws))

    @staticmethod
    def _wrap(res):
        if res is None or res is POISON or isinstance(
                res, (bool, int, Fraction, str, ObjVal, ArrayVal)):
            return res
        return ObjVal(res)

    def data_ref(self, parts):
        cur = self.value(parts[0])
        for part in parts[1:]:
            if not isinstance(cur, ObjVal):
                raise ModelError(f"component of non-object {cur!r}")
            if isinstance(part, F.Name):
                sub = cur.member(part.string.lower())
                if callable(sub):
                    raise ModelError(f"procedure '{part}' used as data")
                cur = self._wrap(sub)
            elif isinstance(part, F.Part_Ref):
                name = part.items[0].string.lower()
                sub = cur.member(name)
                args = [self.value(a) for a in self._arglist(part.items[1])]
                if callable(sub):
                    cur = self._wrap(sub(*args))
                elif isinstance(sub, ArrayVal):
                    cur = sub.cell(tuple(args)).v
                else:
                    raise ModelError(f"subscripted component '{part}'")
            else:
                raise ModelError(f"component '{part}'")
        return cur


# ---------------------------------------------------------------------------
class RingHooks:
    """E1 hooks binding the interpreted PSy layer to the machine."""

    def __init__(self, runner):
        self.runner = runner

    # storage for locals of derived / pointer type
    @staticmethod
    def local(_interp, sym, _frame):
        dtype = sym.datatype
        if isinstance(dtype, DataTypeSymbol):
            return Cell((sym.name.lower(), ()), "obj")
        if isinstance(dtype, UnsupportedFortranType):
            decl = dtype.declaration.lower()
            if "pointer" not in decl:
                raise ModelError(f"declaration '{dtype.declaration}'")
            part = dtype.partial_datatype
            if isinstance(part, ArrayType):
                typ = "int" if decl.lstrip().startswith("integer") else "real"
                return ArrayVal([(1, 0)] * len(part.shape), [], typ,
                                sym.name.lower(), allocated=False)
            return Cell((sym.name.lower(), ()), "obj")
        return None

    def codeblock(self, interp, ast, node, frame):
        if not isinstance(ast, F.Pointer_Assignment_Stmt):
            return False
        lhs, _, rhs = ast.items
        if not isinstance(lhs, F.Name):
            raise ModelError(f"pointer assignment '{ast}'")
        table = node.scope.symbol_table
        val = AstEval(interp, frame, table).value(rhs)
        sym = table.lookup(lhs.string.lower())
        if isinstance(val, ArrayVal):
            frame.store[id(sym)] = val
        elif isinstance(val, ObjVal):
            frame.store[id(sym)] = Cell((sym.name.lower(), ()), "obj", val)
        else:
            raise ModelError(f"pointer target of '{ast}' is {val!r}")
        return True

    @staticmethod
    def codeblock_expr(interp, node, frame):
        asts = node.get_ast_nodes
        if len(asts) != 1:
            raise ModelError("expression CodeBlock with several nodes")
        val = AstEval(interp, frame, node.scope.symbol_table).value(asts[0])
        if isinstance(val, ArrayVal):
            return ArrVal(val.shape, [c.v for c in val.cells])
        return val

    def call(self, interp, node, frame):
        return self.runner.kernel_call(interp, node, frame)


# ---------------------------------------------------------------------------
class PartCtx:
    """Kernel context of the partitioned run (see kernels.KernelRun)."""

    def __init__(self, runner):
        self.runner = runner

    def cell_is_owned(self, cell):
        return cell <= self.runner.machine.ncell

    def pre(self, fld):
        return self.runner.pre[(fld.part, fld.name)]

    def consume(self, kidx, aidx, fld, dof, val, cell, own_pre):
        run = self.runner
        dep = fld.vspace_obj.dof_depth[dof]
        if dep == OWNED:
            return
        if not own_pre and fld.name in run.stmt_written:
            return      # written inside the same statement: no stable owner value
        owner, odof = run.machine.owner_of(fld, dof)
        ref = run.pre[(owner, fld.name)][odof - 1]
        if not kernels.same(val, ref):
            run.dirty_reads.add((kidx, aidx, fld.name,
                                 "annexed" if dep == ANNEXED else f"h{dep}",
                                 "undefined" if val is POISON else "stale"))

    def report_missing(self, kidx, aidx, fld, _cell):
        self.runner.dirty_reads.add((kidx, aidx, fld.name, "outside-halo",
                                     "undefined"))


class PsyProgram:
    """A parsed PSy layer: routine, prologue/body split, kernel-call table."""

    def __init__(self, text, spec):
        from psyclone.psyir.frontend.fortran import FortranReader
        self.text = text
        self.spec = spec
        self.tree = FortranReader().psyir_from_source(text)
        routs = self.tree.walk(N.Routine)
        if len(routs) != 1:
            raise ModelError(f"{len(routs)} routines in the PSy layer")
        self.routine = routs[0]
        stmts = list(self.routine.children)
        split = len(stmts)
        for idx, stmt in enumerate(stmts):
            if not isinstance(stmt, (N.Assignment, N.CodeBlock)):
                split = idx
                break
        self.prologue = stmts[:split]
        self.body = stmts[split:]
        for stmt in self.body:
            for sub in stmt.walk((N.Assignment, N.CodeBlock)):
                if isinstance(sub, N.CodeBlock) and \
                        sub.structure == N.CodeBlock.Structure.STATEMENT:
                    raise ModelError(f"statement CodeBlock in the body: "
                                     f"{sub.debug_string()}")
        # kernel calls in textual order -> kernel index of the spec
        self.kidx_of = {}
        cands = {}
        for kidx, kern in enumerate(spec["kernels"]):
            if kern["kind"] == "cell":
                from mc.lfring import gen
                cands.setdefault(gen.kernel_name(kern) + "_code",
                                 []).append(kidx)
        self.kernel_calls = []
        for call in self.routine.walk(N.Call):
            if isinstance(call, N.IntrinsicCall) or \
                    isinstance(call.routine, N.StructureReference):
                continue
            name = call.routine.name.lower()
            if name not in cands:
                raise ModelError(f"call to unknown routine '{name}'")
            fields = tuple(a.symbol.name.lower()[:-5]
                           for a in call.arguments
                           if isinstance(a, N.Reference)
                           and not isinstance(a, N.ArrayReference)
                           and a.symbol.name.lower().endswith("_data"))
            pick = None
            for kidx in cands[name]:
                want = tuple(a["f"] for a in spec["kernels"][kidx]["args"])
                if want == fields and kidx not in self.kidx_of.values():
                    pick = kidx
                    break
            if pick is None:
                raise ModelError(f"cannot match call {call.debug_string()}")
            self.kidx_of[id(call)] = pick
            self.kernel_calls.append(call)
        # fields written inside each body statement (kernels + built-in
        # assignments to <field>_data)
        self.written = {}
        for stmt in self.body:
            self.written[id(stmt)] = self._written_in(stmt)

    def _written_in(self, stmt):
        out = set()
        for call in stmt.walk(N.Call):
            kidx = self.kidx_of.get(id(call))
            if kidx is not None:
                for arg in self.spec["kernels"][kidx]["args"]:
                    if arg["acc"] != "read":
                        out.add(arg["f"])
        for asg in stmt.walk(N.Assignment):
            name = asg.lhs.symbol.name.lower()
            if name.endswith("_data"):
                out.add(name[:-5])
        return out


class Runner:
    """Runs one PsyProgram for many initial states."""

    def __init__(self, machine, program, extent_names):
        self.machine = machine
        self.program = program
        self.spec = program.spec
        self.extent_names = list(extent_names)
        self.hooks = RingHooks(self)
        self.kernel = kernels.KernelRun(self.spec, PartCtx(self))
        self.part = None
        self.pre = {}
        self.stmt_written = set()
        self.dirty_reads = set()
        self.claims = []
        self.interps = {}
        self.frames = {}
        self.plans = {}
        self.view_cache = {}
        self.comm_cache = {}
        self.loop_depth = 0

    # ---- set-up ---------------------------------------------------------------
    def prepare(self, extents):
        """Bind the dummy arguments and run the prologue in both partitions."""
        rout = self.program.routine
        self.extents = dict(extents)
        self.view_cache = {}
        for part in self.machine.parts:
            interp = Interp(self.program.tree, hooks=self.hooks,
                            horizon=2000000)
            interp.realloc_lhs = True
            frame = Frame(rout, 0)
            for dummy in rout.symbol_table.argument_list:
                name = dummy.name.lower()
                if name in self.spec["fields"]:
                    stor = Cell((name, ()), "obj",
                                self.machine.field(part, name)._obj)
                elif name in extents:
                    stor = Cell((name, ()), "int", extents[name])
                else:
                    raise ModelError(f"unexpected dummy argument '{name}'")
                frame.store[id(dummy)] = stor
            interp.frames.append(frame)
            self.interps[part] = interp
            self.frames[part] = frame
            self.part = part
            for stmt in self.program.prologue:
                interp.exec(stmt, frame)

    # ---- execution ---------------------------------------------------------------
    def run_body(self):
        """Lock-step execution of the body; fills dirty_reads / claims."""
        self.dirty_reads = set()
        self.claims = []
        self.loop_depth = 0
        self._block(self.program.body)
        # end of the invoke: every recorded state must still be true
        self._check_claims("end-of-invoke", None)

    def _block(self, stmts):
        mach = self.machine
        for stmt in stmts:
            if isinstance(stmt, N.IfBlock):
                conds = []
                for part in mach.parts:
                    self.part = part
                    conds.append(self.interps[part].eval(stmt.condition,
                                                         self.frames[part]))
                if len(set(map(repr, conds))) != 1 or \
                        not isinstance(conds[0], bool):
                    raise ModelError(f"partitions disagree on "
                                     f"'{stmt.condition.debug_string()}': "
                                     f"{conds}")
                if conds[0]:
                    self._block(stmt.if_body.children)
                elif stmt.else_body is not None:
                    self._block(stmt.else_body.children)
                continue
            if isinstance(stmt, N.RegionDirective):
                self._block(stmt.dir_body.children)
                continue
            if isinstance(stmt, N.Loop):
                if self.loop_depth == 0:
                    # values before the (outermost) loop started
                    self.pre = mach.snapshot()
                    self.stmt_written = self.program.written.get(id(stmt))
                    if self.stmt_written is None:
                        self.stmt_written = self.program._written_in(stmt)
                if self._has_comm(stmt):
                    # communication / flag calls inside the loop (a halo
                    # exchange placed inside a loop over colours): the
                    # partitions execute it iteration by iteration
                    self._loop_lockstep(stmt)
                    continue
            nevents = len(mach.flag_events)
            for part in mach.parts:
                self.part = part
                self.interps[part].exec(stmt, self.frames[part])
            if len(mach.flag_events) > nevents:
                names = {ev[1] for ev in mach.flag_events[nevents:]}
                what = mach.flag_events[-1][2]
                self._check_claims(what, names)

    def _has_comm(self, loop):
        key = id(loop)
        if key not in self.comm_cache:
            found = False
            for call in loop.walk(N.Call):
                if isinstance(call.routine, N.StructureReference):
                    found = True
            if loop.walk(N.CodeBlock):
                found = True
            self.comm_cache[key] = found
        return self.comm_cache[key]

    def _loop_lockstep(self, loop):
        mach = self.machine
        bounds = []
        for part in mach.parts:
            interp, frame = self.interps[part], self.frames[part]
            self.part = part
            bounds.append(tuple(
                interp._int(interp.eval(expr, frame), "loop bound")
                for expr in (loop.start_expr, loop.stop_expr,
                             loop.step_expr)))
        if len(set(bounds)) != 1:
            raise ModelError(f"partitions disagree on the bounds of "
                             f"'{loop.variable.name}': {bounds}")
        start, stop, step = bounds[0]
        if step == 0:
            raise UB("zero-step")
        self.loop_depth += 1
        try:
            value = start
            while (step > 0 and value <= stop) or \
                    (step < 0 and value >= stop):
                for part in mach.parts:
                    var = self.interps[part].storage(loop.variable,
                                                     self.frames[part])
                    var.v = value
                self._block(loop.loop_body.children)
                value += step
            for part in mach.parts:
                self.interps[part].storage(loop.variable,
                                           self.frames[part]).v = value
        finally:
            self.loop_depth -= 1

    def _check_claims(self, what, names):
        for part, name, dep, _dof, val, _own in \
                self.machine.stale_claims(names):
            self.claims.append((name, dep,
                                "undefined" if val is POISON else "stale",
                                what))

    # ---- kernel calls ---------------------------------------------------------------
    def kernel_call(self, interp, node, frame):
        """Kernel call of the interpreted PSy layer -> Python kernel.

        The actual arguments are evaluated by E1 the first time the call is
        executed for given values of the scalar variables its subscripts
        use (cell, colour, ...); dofmaps / stencil maps / colour maps do not
        change while a Runner exists, so the evaluated argument list is
        reused for the other initial states."""
        plan = self.plans.get(id(node))
        if plan is None:
            plan = []
            for arg in node.arguments:
                for ref in arg.walk(N.Reference):
                    sym = ref.symbol
                    if sym not in plan and type(ref) is N.Reference and \
                            ref is not arg and \
                            not isinstance(ref.parent, N.Call) and \
                            isinstance(interp.storage(sym, frame), Cell):
                        plan.append(sym)
            self.plans[id(node)] = plan
        key = (id(node), self.part) + tuple(
            interp.storage(sym, frame).v for sym in plan)
        hit = self.view_cache.get(key)
        if hit is None:
            hit = self._kernel_views(interp, node, frame)
            self.view_cache[key] = hit
        self.kernel.apply(*hit)
        return None

    def _kernel_views(self, interp, node, frame):
        kidx = self.program.kidx_of.get(id(node))
        if kidx is None:
            raise ModelError(f"unexpected call {node.debug_string()}")
        kern = self.spec["kernels"][kidx]
        actuals = []
        for arg in node.arguments:
            if isinstance(arg, N.Reference) and not isinstance(arg, N.Call):
                stor = interp.designator(arg, frame)
                actuals.append(stor.v if isinstance(stor, Cell) else stor)
            else:
                actuals.append(interp.eval(arg, frame))
        pos = 1                      # actuals[0] is nlayers
        datas, stens = [], []
        for arg in kern["args"]:
            data = actuals[pos]
            pos += 1
            sten = None
            if arg.get("st"):
                sten = (actuals[pos], actuals[pos + 1])
                pos += 2
            datas.append(data)
            stens.append(sten)
        maps = {}
        for fsname in kernels.unique_spaces(kern):
            ndf, undf, dmap = actuals[pos:pos + 3]
            pos += 3
            maps[fsname] = (ndf, undf, dmap)
        if pos != len(actuals):
            raise ModelError(f"kernel call has {len(actuals)} arguments, "
                             f"expected {pos}: {node.debug_string()}")
        part = self.part
        cell = None
        views = []
        for idx, arg in enumerate(kern["args"]):
            fld = self.machine.field(part, arg["f"])
            if datas[idx] is not fld.data:
                raise ModelError(f"argument {idx} of {node.routine.name} is "
                                 f"not the data of field {arg['f']}")
            ndf, undf, dmap = maps[arg["fs"]]
            if not isinstance(dmap, ArrayVal) or len(dmap.cells) != ndf:
                raise ModelError("dofmap argument")
            if ndf != fld.vspace_obj.ndf or undf != fld.vspace_obj.undf:
                raise ModelError(
                    f"field {arg['f']} is passed with the dofmap of a "
                    f"different function space (ndf {ndf}, undf {undf})")
            here = dmap.cells[0].loc[1][-1]
            if cell is None:
                cell = here
            elif cell != here:
                raise ModelError("dofmaps of different cells in one call")
            if stens[idx] is None:
                dofs = [[c.v for c in dmap.cells]]
                full = 1
            else:
                size, smap = stens[idx]
                if not isinstance(smap, ArrayVal) or len(smap.bounds) != 2:
                    raise ModelError("stencil dofmap argument")
                full = smap.shape[1]
                if smap.cells[0].loc[1][-1] != cell:
                    raise ModelError("stencil dofmap of a different cell")
                dofs = [[smap.cell((a, s)).v for a in range(1, ndf + 1)]
                        for s in range(1, size + 1)]
            views.append((fld, dofs, full))
        return kidx, cell, views
