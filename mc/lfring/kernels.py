"""Kernel semantics derived from the generated kernel metadata, and the
global serial reference run.

For one cell, with C = c_k + sum over READ arguments r of
p_r * sum_{stencil cell s, dof a} (1 + s*ndf + a) * r[dofmap_r(a, s)]
(c_k, p_r distinct primes; missing stencil neighbours contribute POISON):

  GH_WRITE, space declared discontinuous (w3, ...)
                            w[map(1)]  = C
  GH_WRITE, continuous      w[map(a)]  = c_k + sum over READ arguments r on a
                            continuous space without stencil p_r * r[map_r(a)]
                            (the value written to a shared DoF must not depend
                            on the cell: only same-vertex data may be used)
  GH_WRITE, any_space bound to a discontinuous space
                            w[map(1)]  = c_k   (the kernel must also be valid
                            on a continuous space: no cell-local data)
  GH_READWRITE              w[map(1)]  = 2*w[map(1)] + C
  GH_INC                    w[map(a)] += a * C
  GH_READINC                w[map(a)] += a * (C + q * sum_b w0[map(b)])
                            where w0 is the value of w before the loop that
                            contains the kernel call started (a kernel that
                            reads the field and then increments it; the
                            result must not depend on the order of the cells)

Every value a kernel consumes through a read access (READ arguments, the w0
part of READINC) while it computes an OWNED cell, and that flows into a DoF
owned by the partition, is compared with the owner partition's value of that
DoF before the statement started: a difference is a read of a dirty (stale or
undefined) copy.
"""
from fractions import Fraction

from mc.fortsem.interp import POISON
from mc.lfring import gen
from mc.lfring.ring import OWNED

PRIMES = [2, 3, 5, 7, 11, 13, 17, 19, 23, 29, 31, 37, 41, 43, 47, 53, 59, 61,
          67, 71, 73, 79, 83, 89, 97, 101, 103, 107, 109, 113, 127, 131, 137,
          139, 149, 151, 157, 163, 167, 173, 179, 181, 191, 193, 197, 199]


def padd(lhs, rhs):
    if lhs is POISON or rhs is POISON:
        return POISON
    return lhs + rhs


def pmul(lhs, rhs):
    if lhs is POISON or rhs is POISON:
        return POISON
    return lhs * rhs


def same(lhs, rhs):
    if lhs is POISON or rhs is POISON:
        return lhs is rhs
    return lhs == rhs


def unique_spaces(kern):
    names = []
    for arg in kern["args"]:
        if arg["fs"] not in names:
            names.append(arg["fs"])
    return names


def weights(kidx, kern):
    """(c_k, [p_r per argument], q) for kernel number kidx of the invoke."""
    base = 3 + 8 * kidx
    return (PRIMES[base], [PRIMES[base + 1 + i] for i in range(len(kern["args"]))],
            PRIMES[base + 5])


class KernelRun:
    """Executes one kernel call on one cell of one (local or serial) mesh.

    ctx supplies: field(name) -> Field of the current partition,
    pre(name) -> list of the field's values before the current statement,
    owner_pre(field, dof) -> owner's value before the current statement,
    skip_check(name) -> bool, report(event dict)."""

    def __init__(self, spec, ctx):
        self.spec = spec
        self.ctx = ctx

    def run_cell(self, kidx, cell, extents):
        """Reference form: dofmaps are taken from the mesh objects."""
        kern = self.spec["kernels"][kidx]
        views = []
        for arg in kern["args"]:
            fld = self.ctx.field(arg["f"])
            fsp = fld.vspace_obj
            sten = arg.get("st")
            if sten:
                ext = self._extent(kidx, arg, extents)
                smap = fsp.get_stencil_dofmap(sten[0], ext).obj
                size = smap.sizes.cell((cell,)).v
                dofs = [[smap.dofmap.cell((a, s, cell)).v
                         for a in range(1, fsp.ndf + 1)]
                        for s in range(1, size + 1)]
                full = 1 + 2 * ext
            else:
                dofs = [list(fsp.cell_dofs[cell])]
                full = 1
            views.append((fld, dofs, full))
        self.apply(kidx, cell, views)

    @staticmethod
    def _extent(kidx, arg, extents):
        sten = arg["st"]
        if len(sten) > 2 and sten[2]:
            return sten[2]
        if sten[1] == "v":
            return extents[gen.extent_name(kidx, arg)]
        return sten[1]

    def apply(self, kidx, cell, views):
        """views[i] = (Field, [[dof per a] per stencil cell], full size)."""
        kern = self.spec["kernels"][kidx]
        const, prs, qre = weights(kidx, kern)
        ctx = self.ctx
        owned_cell = ctx.cell_is_owned(cell)
        # Does C flow into a DoF that the cell owns?  (INC / READINC /
        # READWRITE and GH_WRITE to a space declared discontinuous update
        # DoFs of an owned cell with C.)
        uses_total = any(
            arg["acc"] in ("inc", "readinc", "rw") or
            (arg["acc"] == "write" and arg["fs"] in gen.DISC_NAMES)
            for arg in kern["args"])
        # ---- C: contributions of the READ arguments ------------------------
        total = const
        pointwise = []          # (arg index, p_r, field, dofs of this cell)
        for idx, arg in enumerate(kern["args"]):
            if arg["acc"] != "read":
                continue
            fld, dofs, full = views[idx]
            data = fld.data.cells
            ndf = fld.vspace_obj.ndf
            acc = 0
            for spos, cdofs in enumerate(dofs):
                for apos, dof in enumerate(cdofs):
                    val = data[dof - 1].v
                    if owned_cell and uses_total:
                        ctx.consume(kidx, idx, fld, dof, val, cell, False)
                    acc = padd(acc, pmul(1 + spos * ndf + apos, val))
            if len(dofs) < full:
                acc = POISON        # neighbour outside the local mesh
                if owned_cell and uses_total:
                    ctx.report_missing(kidx, idx, fld, cell)
            total = padd(total, pmul(prs[idx], acc))
            if fld.vspace_obj.kind == "c" and not arg.get("st"):
                pointwise.append((idx, prs[idx], fld, dofs[0]))
        # ---- updates ----------------------------------------------------------
        for idx, arg in enumerate(kern["args"]):
            acc = arg["acc"]
            if acc == "read":
                continue
            fld, dofs, _ = views[idx]
            data = fld.data.cells
            cdofs = dofs[0]
            kind = fld.vspace_obj.kind
            if acc == "write":
                if arg["fs"] in gen.DISC_NAMES:
                    data[cdofs[0] - 1].v = total
                elif kind == "d":
                    # any_space bound to a discontinuous space: the kernel
                    # must also be valid on a continuous space, where no
                    # cell-local data of another space may be used
                    data[cdofs[0] - 1].v = const
                else:
                    depths = fld.vspace_obj.dof_depth
                    for apos, dof in enumerate(cdofs):
                        val = const
                        for ridx, prime, rfld, rdofs in pointwise:
                            rval = rfld.data.cells[rdofs[apos] - 1].v
                            if owned_cell and depths[dof] == OWNED:
                                ctx.consume(kidx, ridx, rfld, rdofs[apos],
                                            rval, cell, False)
                            val = padd(val, pmul(prime, rval))
                        data[dof - 1].v = val
            elif acc == "rw":
                old = data[cdofs[0] - 1].v
                data[cdofs[0] - 1].v = padd(pmul(2, old), total)
            elif acc == "inc":
                for apos, dof in enumerate(cdofs):
                    data[dof - 1].v = padd(data[dof - 1].v,
                                           pmul(apos + 1, total))
            elif acc == "readinc":
                pre = ctx.pre(fld)
                own = 0
                for dof in cdofs:
                    val = pre[dof - 1]
                    if owned_cell:
                        ctx.consume(kidx, idx, fld, dof, val, cell, True)
                    own = padd(own, val)
                incr = padd(total, pmul(qre, own))
                for apos, dof in enumerate(cdofs):
                    data[dof - 1].v = padd(data[dof - 1].v,
                                           pmul(apos + 1, incr))
            else:
                raise ValueError(acc)


class SerialCtx:
    def __init__(self, machine):
        self.machine = machine
        self._pre = {}

    def field(self, name):
        return self.machine.field(None, name)

    def begin_statement(self):
        self._pre = {name: [c.v for c in self.field(name).data.cells]
                     for name in self.machine.field_names}

    def pre(self, fld):
        return self._pre[fld.name]

    @staticmethod
    def cell_is_owned(_cell):
        return False          # no consumption checks in the reference run

    def consume(self, *args):
        pass

    def report_missing(self, *args):
        pass


def builtin_reference(kern, fields):
    """Documented semantics of the built-ins used, on all DoFs."""
    name = kern["name"]
    datas = [fields[f].data.cells for f in kern["f"]]
    num = len(datas[0])
    if name == "setval_c":
        const = Fraction(gen.SETVAL_CONST.split("_")[0])
        for dof in range(num):
            datas[0][dof].v = const
    elif name == "setval_x":
        for dof in range(num):
            datas[0][dof].v = datas[1][dof].v
    elif name == "x_plus_y":
        for dof in range(num):
            datas[0][dof].v = padd(datas[1][dof].v, datas[2][dof].v)
    elif name == "inc_x_plus_y":
        for dof in range(num):
            datas[0][dof].v = padd(datas[0][dof].v, datas[1][dof].v)
    else:
        raise ValueError(name)


def serial_run(spec, extents, ncell=4):
    """Global serial run of the kernel sequence on the undecomposed ring:
    {field: {global DoF id: value}}."""
    from mc.lfring.ring import Machine
    mach = Machine(ncell, 0, serial=True)
    for name in sorted(spec["fields"]):
        mach.add_field(name, spec["fields"][name])
    mach.reset(None, True)
    ctx = SerialCtx(mach)
    runner = KernelRun(spec, ctx)
    for kidx, kern in enumerate(spec["kernels"]):
        ctx.begin_statement()
        if kern["kind"] == "bi":
            builtin_reference(kern, {f: mach.field(None, f)
                                     for f in kern["f"]})
        else:
            for cell in range(1, mach.meshes[None].ncells + 1):
                runner.run_cell(kidx, cell, extents)
    return mach.owned_values()
