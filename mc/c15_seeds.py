"""C15 seed programs.

Twelve small Fortran programs (plus deterministic post-processing through public
PSyclone APIs: OpenMP transformations, lowering, symbols declared in inner
scopes).  Every call of ``build(name)`` returns a tree made of FRESH PSyIR
objects: the fparser2 parse tree of each seed is cached per process (parsing
is 80% of the cost) and the real fparser2 -> PSyIR frontend is re-run on it;
``selfcheck()`` verifies, once per process, that this gives exactly what a
fresh ``FortranReader().psyir_from_source`` gives (same written code, twice
in a row) so the cache cannot leak state between histories.
"""

SEEDS = {}

# kind parameters used in declarations and literals (module + routine scope)
SEEDS["kinds"] = '''
module kinds_m
  implicit none
  integer, parameter :: rk = 8
  integer, parameter :: n = 4
  real(kind=rk), dimension(n) :: garr
contains
  subroutine work(a)
    real(kind=rk), intent(inout) :: a(n)
    integer, parameter :: ik = 4
    integer(kind=ik) :: cnt
    real(kind=rk) :: x
    cnt = 2_ik
    x = 1.5_rk
    a(1) = x + garr(cnt)
  end subroutine work
end module kinds_m
'''

# array bounds that reference other symbols
SEEDS["bounds"] = '''
subroutine bnd(a, e, n, m)
  integer, intent(in) :: n, m
  real, intent(inout) :: a(n, m)
  real, intent(in) :: e(2:)
  integer :: lo
  real :: b(n + 1), c(0:m)
  real, dimension(:), allocatable :: d
  lo = n
  b(1) = a(1, 1) + e(2)
  c(0) = b(lo)
  a(n, m) = c(0)
end subroutine bnd
'''

# initial values (constants that depend on each other, saved variables)
SEEDS["initvals"] = '''
module init_m
  implicit none
  private
  public :: ini, scale
  integer, parameter :: m = 4
  integer, parameter :: m2 = 2 * m
  real :: scale = 1.0
contains
  subroutine ini(x)
    real, intent(out) :: x
    integer, parameter :: p = m2 + 1
    integer :: cnt = p
    real, parameter :: eps = 0.5
    x = scale * eps + cnt
  end subroutine ini
end module init_m
'''

# imported symbols: only-lists, renamed, wildcard, unresolved
SEEDS["imports"] = '''
module imp_m
  use kinds_mod, only: wp, ik => i_def
  use other_mod
  implicit none
  real(kind=wp) :: total
contains
  subroutine acc(v, k)
    use const_mod, only: pi, unused_sym
    use more_mod
    real(kind=wp), intent(in) :: v
    integer(kind=ik), intent(in) :: k
    real(kind=wp) :: w
    w = v * pi + far_away
    total = total + w * 2.0_wp
  end subroutine acc
end module imp_m
'''

# generic interface, several routines, function with result, calls
SEEDS["generic"] = '''
module gen_m
  implicit none
  interface swap
    module procedure swap_r, swap_i
  end interface swap
  private :: swap_i, swap
contains
  subroutine swap_r(a, b)
    real, intent(inout) :: a, b
    real :: t
    t = a
    a = b
    b = t
  end subroutine swap_r
  subroutine swap_i(a, b)
    integer, intent(inout) :: a, b
    integer :: t
    t = a
    a = b
    b = t
  end subroutine swap_i
  function twice(v) result(r)
    real, intent(in) :: v
    real :: r
    r = 2.0 * v
  end function twice
  subroutine drive(p, q)
    real, intent(inout) :: p, q
    call swap(p, q)
    call swap_r(a=p, b=q)
    p = twice(q)
  end subroutine drive
end module gen_m
'''

# nested scopes: loops and branches; symbols are added to the inner scopes in
# post_nested() below
SEEDS["nested"] = '''
subroutine nest(a, n)
  integer, intent(in) :: n
  real, intent(inout) :: a(n, n)
  integer :: i, j
  do j = 1, n
    do i = 1, n
      if (a(i, j) > 0.0) then
        a(i, j) = a(i, j) - 1.0
      else
        a(i, j) = 0.0
      end if
    end do
  end do
end subroutine nest
'''

# loop variables, loop bounds referencing symbols, steps, while loop
SEEDS["loops"] = '''
program lp
  implicit none
  integer, parameter :: nx = 6
  integer :: i, k, lo, hi
  real :: acc(nx)
  lo = 2
  hi = nx - 1
  do i = lo, hi, 2
    acc(i) = 1.0
  end do
  do k = nx, 1, -1
    acc(k) = acc(k) + k
  end do
  do while (lo < hi)
    lo = lo + 1
  end do
  write(*, *) acc(1)
end program lp
'''

# OpenMP directives (post_omp(): parallel do, parallel + do with schedule)
SEEDS["omp"] = '''
subroutine par(a, b, n)
  integer, intent(in) :: n
  real, intent(inout) :: a(n), b(n)
  integer :: i, j
  real :: tmp
  do i = 1, n
    tmp = b(i)
    a(i) = tmp + 1.0
  end do
  do j = 1, n
    b(j) = a(j)
  end do
end subroutine par
'''

# the same, lowered to language level: explicit private/schedule clauses
SEEDS["omp_lowered"] = SEEDS["omp"].replace("par", "parl")

# derived types: components with kind/bounds/initial values, structure refs
SEEDS["dtypes"] = '''
module dt_m
  use kinds_mod, only: rk
  implicit none
  integer, parameter :: np = 3
  type :: point
    real(kind=rk) :: x(3)
    integer :: id = 0
  end type point
  type(point) :: origin
contains
  subroutine move(p, d)
    type(point), intent(inout) :: p
    real(kind=rk), intent(in) :: d
    type :: loc_t
      integer :: cnt(2)
    end type loc_t
    type(point) :: q
    type(loc_t) :: lv
    q = p
    q%x(1) = p%x(1) + d
    p%id = q%id + origin%id + lv%cnt(1)
  end subroutine move
end module dt_m
'''

# two program units in one file, calls with named arguments, external routine
SEEDS["multi"] = '''
module util_m
  implicit none
  integer, parameter :: len = 5
  real :: store(len)
contains
  subroutine put(idx, val)
    integer, intent(in) :: idx
    real, intent(in) :: val
    store(idx) = val
  end subroutine put
end module util_m
program main
  use util_m, only: put, len
  implicit none
  integer :: i
  do i = 1, len
    call put(i, val=1.0)
  end do
  call ext_sub(i)
end program main
'''

# same-named integer scalars in nested copied scopes, each used as a loop
# variable: a module variable `i` and a routine-local `i` (plain Fortran), plus
# (post_shadow) an `i` declared in the body of the IfBlock with
# new_symbol(shadowing=True) and a loop over it
SEEDS["shadow"] = '''
module sh_m
  implicit none
  integer :: i
  real :: store(4)
contains
  subroutine fill(flag)
    logical, intent(in) :: flag
    integer :: i
    do i = 1, 4
      store(i) = 1.0
    end do
    if (flag) then
      store(1) = 0.0
    end if
  end subroutine fill
  subroutine glob()
    do i = 1, 2
      store(i) = 3.0
    end do
  end subroutine glob
end module sh_m
'''

ORDER = ["kinds", "bounds", "initvals", "imports", "generic", "nested",
         "loops", "omp", "omp_lowered", "dtypes", "multi", "shadow"]


def post_nested(root):
    """Declare symbols in inner scopes (as transformations do) and use them."""
    from psyclone.psyir.nodes import Loop, IfBlock, Assignment, Reference
    from psyclone.psyir.symbols import (DataSymbol, REAL_TYPE, INTEGER_TYPE,
                                        ArrayType)
    outer, inner = root.walk(Loop)[:2]
    rtab = root.children[0].symbol_table
    nsym = rtab.lookup("n")
    # a scalar temporary in the outer loop body, an array whose bound
    # references a routine-scope symbol in the inner loop body
    tmp = outer.loop_body.symbol_table.new_symbol(
        "tmp", symbol_type=DataSymbol, datatype=REAL_TYPE)
    wrk = inner.loop_body.symbol_table.new_symbol(
        "wrk", symbol_type=DataSymbol,
        datatype=ArrayType(REAL_TYPE, [Reference(nsym)]))
    ifb = root.walk(IfBlock)[0]
    flag = ifb.if_body.symbol_table.new_symbol(
        "flag", symbol_type=DataSymbol, datatype=INTEGER_TYPE)
    isym = rtab.lookup("i")
    outer.loop_body.addchild(
        Assignment.create(Reference(tmp), Reference(tmp).copy()), 0)
    from psyclone.psyir.nodes import ArrayReference, Literal
    inner.loop_body.addchild(
        Assignment.create(ArrayReference.create(wrk, [Reference(isym)]),
                          Reference(tmp)), 0)
    ifb.if_body.addchild(
        Assignment.create(Reference(flag), Literal("1", INTEGER_TYPE)))
    # an inner symbol that shadows a routine-scope symbol of the same name
    shadow = ifb.else_body.symbol_table.new_symbol(
        "j", shadowing=True, symbol_type=DataSymbol, datatype=INTEGER_TYPE)
    ifb.else_body.addchild(
        Assignment.create(Reference(shadow), Literal("2", INTEGER_TYPE)))
    return root


def post_shadow(root):
    """A loop variable declared in the body of an IfBlock that shadows the
    routine's (and the module's) `i`."""
    from psyclone.psyir.nodes import (IfBlock, Loop, Assignment, Reference,
                                      ArrayReference, Literal)
    from psyclone.psyir.symbols import DataSymbol, INTEGER_TYPE, REAL_TYPE
    ifb = root.walk(IfBlock)[0]
    inner = ifb.if_body.symbol_table.new_symbol(
        "i", shadowing=True, symbol_type=DataSymbol, datatype=INTEGER_TYPE)
    store = root.children[0].symbol_table.lookup("store")
    body = Assignment.create(
        ArrayReference.create(store, [Reference(inner)]),
        Literal("2.0", REAL_TYPE))
    ifb.if_body.addchild(Loop.create(
        inner, Literal("1", INTEGER_TYPE), Literal("3", INTEGER_TYPE),
        Literal("1", INTEGER_TYPE), [body]))
    return root


def post_bounds(root):
    """An array bound that is an expression (the frontend of this version
    only produces those as UnsupportedFortranType)."""
    from psyclone.psyir.nodes import BinaryOperation, Literal, Reference
    from psyclone.psyir.symbols import (DataSymbol, REAL_TYPE, INTEGER_TYPE,
                                        ArrayType)
    rtab = root.children[0].symbol_table
    msym = rtab.lookup("m")
    rtab.new_symbol(
        "f", symbol_type=DataSymbol,
        datatype=ArrayType(REAL_TYPE, [BinaryOperation.create(
            BinaryOperation.Operator.MUL, Literal("2", INTEGER_TYPE),
            Reference(msym))]))
    return root


def post_omp(root):
    from psyclone.psyir.nodes import Loop
    from psyclone.transformations import (OMPParallelLoopTrans, OMPLoopTrans,
                                          OMPParallelTrans)
    loops = root.walk(Loop)
    OMPParallelLoopTrans().apply(loops[0])
    OMPLoopTrans(omp_schedule="dynamic").apply(loops[1])
    OMPParallelTrans().apply(loops[1].parent.parent)
    return root


def post_omp_lowered(root):
    post_omp(root)
    root.lower_to_language_level()
    return root


POST = {"nested": post_nested, "shadow": post_shadow, "bounds": post_bounds, "omp": post_omp, "omp_lowered": post_omp_lowered}

_PARSER = None
_TREES = {}


def _parse(name):
    global _PARSER
    if name not in _TREES:
        from fparser.common.readfortran import FortranStringReader
        from fparser.two.parser import ParserFactory
        if _PARSER is None:
            _PARSER = ParserFactory().create(std="f2008")
        _TREES[name] = _PARSER(FortranStringReader(SEEDS[name],
                                                   ignore_comments=True))
    return _TREES[name]


def build(name):
    """Fresh PSyIR tree for one seed (real frontend on the cached parse tree)."""
    from psyclone.psyir.frontend.fparser2 import Fparser2Reader
    root = Fparser2Reader().generate_psyir(_parse(name))
    if name in POST:
        root = POST[name](root)
    return root


def build_uncached(name):
    from psyclone.psyir.frontend.fortran import FortranReader
    root = FortranReader().psyir_from_source(SEEDS[name])
    if name in POST:
        root = POST[name](root)
    return root


def selfcheck():
    """Cached builds are identical to a fresh read, repeatedly."""
    from psyclone.psyir.backend.fortran import FortranWriter
    from mc import c15_graph
    for name in ORDER:
        ref = build_uncached(name)
        ref_txt = FortranWriter()(ref)
        ref_fp = c15_graph.fingerprint([ref])
        for _ in range(3):
            got = build(name)
            if FortranWriter()(got) != ref_txt or \
                    c15_graph.fingerprint([got]) != ref_fp:
                raise RuntimeError(f"seed {name}: cached build differs from "
                                   f"a fresh FortranReader build")
