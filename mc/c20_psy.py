"""C20: the PSyclone side.  Fresh configuration per (annexed) setting, parsing
of a generated algorithm, PSy-layer creation for one distributed-memory
setting, the OpenMP transformations and code generation."""
import os

OMP_VARIANTS = ("none", "pdo", "pardo", "pardo-reprod")


def write_configs(repo, directory):
    """Two copies of <repo>/config/psyclone.cfg that differ in
    COMPUTE_ANNEXED_DOFS only; returns {False: path, True: path}."""
    with open(os.path.join(repo, "config", "psyclone.cfg"),
              encoding="utf-8") as fin:
        text = fin.read()
    if text.count("COMPUTE_ANNEXED_DOFS = false") != 1:
        raise ValueError("unexpected layout of config/psyclone.cfg")
    os.makedirs(directory, exist_ok=True)
    out = {}
    for flag in (False, True):
        path = os.path.join(directory, f"psyclone_annexed_{int(flag)}.cfg")
        with open(path, "w", encoding="utf-8") as fout:
            fout.write(text.replace(
                "COMPUTE_ANNEXED_DOFS = false",
                "COMPUTE_ANNEXED_DOFS = " + ("true" if flag else "false")))
        out[flag] = path
    return out


def load_config(path, annexed):
    """Fresh PSyclone configuration state from `path`."""
    from psyclone.configuration import Config
    from psyclone.domain.lfric import LFRicConstants
    Config._instance = None
    LFRicConstants.HAS_BEEN_INITIALISED = False
    conf = Config.get(do_not_load_file=True)
    conf.load(path)
    conf.api = "lfric"
    if bool(conf.api_conf("lfric").compute_annexed_dofs) != bool(annexed):
        raise AssertionError("generated configuration file not honoured")
    return conf


def parse_algorithm(path):
    from psyclone.parse.algorithm import parse
    return parse(path, api="lfric")


def apply_openmp(schedule, variant):
    """Applies the OpenMP variant to every built-in loop of one invoke
    schedule.  Returns None or the text of the (clean) refusal."""
    from psyclone.domain.lfric import LFRicLoop
    from psyclone.transformations import (
        DynamoOMPParallelLoopTrans, Dynamo0p3OMPLoopTrans, OMPParallelTrans,
        TransformationError)
    if variant == "none":
        return None
    loops = [lp for lp in schedule.walk(LFRicLoop)
             if not lp.ancestor(LFRicLoop)]
    try:
        for loop in loops:
            if variant == "pdo":
                DynamoOMPParallelLoopTrans().apply(loop)
            else:
                Dynamo0p3OMPLoopTrans().apply(
                    loop, {"reprod": variant == "pardo-reprod"})
                OMPParallelTrans().apply(loop.parent.parent)
    except TransformationError as err:
        return str(err.value)
    return None


def apply_redundant(schedule, depth):
    """Dynamo0p3RedundantComputationTrans on every built-in loop; returns
    None or the refusal text."""
    from psyclone.domain.lfric import LFRicLoop
    from psyclone.transformations import (
        Dynamo0p3RedundantComputationTrans, TransformationError)
    try:
        for loop in schedule.walk(LFRicLoop):
            opts = {"depth": depth} if depth else None
            Dynamo0p3RedundantComputationTrans().apply(loop, opts)
    except TransformationError as err:
        return str(err.value)
    return None


def create_psy(invoke_info, dm):
    from psyclone.psyGen import PSyFactory
    return PSyFactory("lfric", distributed_memory=dm).create(invoke_info)


def schedule_summary(schedule):
    """[(builtin name, loop upper-bound name, halo index)] from the schedule
    objects (cross-checked against the generated text by the range check)."""
    from psyclone.domain.lfric import LFRicLoop
    out = []
    for loop in schedule.walk(LFRicLoop):
        kerns = loop.kernels()
        out.append((kerns[0].name if kerns else None, loop.upper_bound_name,
                    loop.upper_bound_halo_depth
                    if hasattr(loop, "upper_bound_halo_depth") else None))
    return out


def generate(alg_path, dm, variant, redundant=None):
    """-> (algorithm text, PSy-layer text, {invoke name: refusal text},
    {invoke name: schedule summary})"""
    from psyclone.alg_gen import Alg
    ast, info = parse_algorithm(alg_path)
    psy = create_psy(info, dm)
    refused = {}
    summary = {}
    for invoke in psy.invokes.invoke_list:
        if redundant is not None:
            why = apply_redundant(invoke.schedule, redundant)
            if why:
                refused[invoke.name] = "redundant: " + why
        why = apply_openmp(invoke.schedule, variant)
        if why:
            refused[invoke.name] = why
        summary[invoke.name] = schedule_summary(invoke.schedule)
    alg = str(Alg(ast, psy).gen)
    text = str(psy.gen)
    return alg, text, refused, summary
