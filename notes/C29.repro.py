# Stand-alone reproducer for C29 ('single' scheme: a reader races the creator's write).
# PSYCLONE_CONFIG=/repo/config/psyclone.cfg /venv/bin/python repro.py
import os, shutil, tempfile
from psyclone.configuration import Config
from psyclone.parse.algorithm import parse
from psyclone.psyGen import PSyFactory, CodedKern
from psyclone.transformations import ACCRoutineTrans
ALG = "/repo/src/psyclone/tests/test_files/gocean1p0/single_invoke.f90"
out = tempfile.mkdtemp(dir="/dev/shm")
cfg = Config.get(); cfg.api = "gocean"
cfg._kernel_output_dir = out; cfg._kernel_naming = "single"
def run():
    psy = PSyFactory("gocean", distributed_memory=False).create(parse(ALG, api="gocean")[1])
    ACCRoutineTrans().apply(psy.invokes.invoke_list[0].schedule.coded_kernels()[0])
    return psy
run_a, run_b = run(), run()           # two runs that produce the identical kernel
orig, state = CodedKern._rename_psyir, {}
def between_create_and_write(self, suffix):
    # rename_and_write calls this after os.open(O_CREAT|O_EXCL) and before os.write:
    # let the whole of run B happen at that point of run A (once).
    if not state:
        state["b"] = "pending"
        try:
            str(run_b.gen); state["b"] = "shared the file"
        except Exception as err:
            state["b"] = f"FAILED: {type(err).__name__}: {str(err)[:140]}..."
    return orig(self, suffix)
CodedKern._rename_psyir = between_create_and_write
str(run_a.gen)
print("run A ok; run B", state["b"]); print(sorted(os.listdir(out))); shutil.rmtree(out)
