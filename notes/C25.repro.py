# Stand-alone reproducers for the C25 findings (run with PSYCLONE_CONFIG=/repo/config/psyclone.cfg,
# PYTHONPATH=/repo/src, in an empty scratch directory).
import os, sys
from psyclone.configuration import Config
from psyclone.gocean1p0 import GOLoop, GOKern
from psyclone.parse.algorithm import parse
from psyclone.psyGen import PSyFactory
from psyclone.psyir.backend.fortran import FortranWriter
from psyclone.domain.gocean.transformations import (
    GOceanLoopFuseTrans, GOConstLoopBoundsTrans,
    GOMoveIterationBoundariesInsideKernelTrans)

KERN = """module {n}_mod
  use kind_params_mod
  use kernel_mod
  use argument_mod
  use field_mod
  use grid_mod
  implicit none
  type, extends(kernel_type) :: {n}
     type(go_arg), dimension(2) :: meta_args = (/ go_arg(GO_WRITE, {t}, GO_POINTWISE), &
                                                  go_arg(GO_READ,  {t}, GO_POINTWISE) /)
     integer :: ITERATES_OVER = {s}
     integer :: index_offset = {o}
  contains
    procedure, nopass :: code => {n}_code
  end type {n}
contains
  subroutine {n}_code(i, j, a, b)
    integer, intent(in) :: i, j
    real(go_wp), intent(out), dimension(:,:) :: a
    real(go_wp), intent(in),  dimension(:,:) :: b
    a(i,j) = 1.0
  end subroutine {n}_code
end module {n}_mod
"""

def schedule(kernels, spaces=()):
    # optional user-defined iteration spaces: derived cfg loaded into a fresh Config
    text = open(os.environ["PSYCLONE_CONFIG"]).read()
    if spaces:
        text = text.replace("[gocean]\n", "[gocean]\niteration-spaces=" + "\n  ".join(spaces) + "\n")
    open("c25.cfg", "w").write(text)
    Config._instance = None
    GOLoop._bounds_lookup = {}
    Config.get(do_not_load_file=True).load("c25.cfg")
    calls = []
    for num, (off, typ, spc) in enumerate(kernels):
        open(f"k{num}_mod.f90", "w").write(KERN.format(n=f"k{num}", o=off, t=typ, s=spc))
        calls.append(f"k{num}(w{num}, r)")
    uses = "".join(f"  use k{n}_mod, only: k{n}\n" for n in range(len(kernels)))
    flds = "".join(f"  type(r2d_field) :: w{n}\n" for n in range(len(kernels)))
    open("alg.f90", "w").write(f"program alg\n  use field_mod\n{uses}{flds}  type(r2d_field) :: r\n"
                               f"  call invoke({', '.join(calls)})\nend program alg\n")
    _, info = parse("alg.f90", api="gocean", kernel_paths=["."])
    return PSyFactory("gocean", distributed_memory=False).create(info).invokes.invoke_list[0].schedule

what = sys.argv[1]
if what == "start":      # {start} is always the literal 2, never the grid's internal start
    sched = schedule([("GO_OFFSET_SW", "GO_CT", "my_halo")],
                     ["go_offset_sw:go_ct:my_halo:{start}-1:{stop}+1:{start}:{stop}"])
    print(FortranWriter()(sched))      # do j = 2 - 1, ...  / do i = 2, ...
    sched = schedule([("GO_OFFSET_NE", "GO_CU", "GO_INTERNAL_PTS")])
    GOConstLoopBoundsTrans().apply(sched)
    print(FortranWriter()(sched))      # do j = 2, jstop / do i = 2, istop - 1   (was w0%internal%xstart ...)
elif what == "every":    # the configured region of a go_every kernel is ignored
    sched = schedule([("GO_OFFSET_SW", "GO_EVERY", "my_row")],
                     ["go_offset_sw:go_every:my_row:{start}:{start}:{start}-1:{stop}+1"])
    print(FortranWriter()(sched))      # do j = 1, SIZE(w0%data, 2): whole array, not row {start}
    GOConstLoopBoundsTrans().apply(sched)
    print(FortranWriter()(sched))      # do j = 2, 2: the configured row
elif what == "fuse":     # fused loops keep the bounds of the first kernel's index offset
    sched = schedule([("GO_OFFSET_SW", "GO_CU", "my_sp"), ("GO_OFFSET_ANY", "GO_CU", "my_sp")],
                     ["go_offset_sw:go_cu:my_sp:1:1:2:4", "go_offset_any:go_cu:my_sp:1:3:2:5"])
    print(FortranWriter()(sched))      # k1: j=1..3, i=2..5
    GOceanLoopFuseTrans().apply(sched[0], sched[1])
    GOceanLoopFuseTrans().apply(sched[0].loop_body[0], sched[0].loop_body[1])
    print(FortranWriter()(sched))      # k1 now called for j=1..1, i=2..4
elif what == "move":     # the shared outer loop is widened, the second kernel gets no mask
    sched = schedule([("GO_OFFSET_NE", "GO_CU", "GO_INTERNAL_PTS")] * 2)
    GOceanLoopFuseTrans().apply(sched[0], sched[1])
    GOMoveIterationBoundariesInsideKernelTrans().apply(sched.walk(GOKern)[0])
    print(FortranWriter()(sched))      # k1_code is called for j = 1..SIZE(w0%data,2) without a mask
