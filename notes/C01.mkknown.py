#!/venv/bin/python
"""Development aid for C01 and C03: turns VERIF_DUMP_VIOL files into the
known-finding side files (known/C01-*.txt, known/C03-*.txt).

usage: C01.mkknown.py PROP DUMP [DUMP ...]     (PROP = C01 | C03)

Every signature of the dumps must be claimed by exactly one triaged mechanism
below, otherwise the tool stops: nothing is listed that has not been triaged.
Existing side files are merged (quick + thorough dumps).
"""
import json
import os
import re
import sys

ROOT = os.path.dirname(os.path.dirname(os.path.abspath(__file__)))

# C01: failing template -> finding (the template named in the culprit part of the
# signature; internal AttributeErrors of the 'Extent' family are one finding)
C01_TEMPLATE = {
    "where.stmtlb2": "where-mask-lower-bound", "where.2dlb": "where-mask-lower-bound",
    "where.two": "where-mask-lower-bound", "where.elemlast": "where-mask-lower-bound",
    "where.nested": "where-nested", "where.nested2": "where-nested",
    "where.sumbody": "where-reduction-argument", "where.summask": "where-reduction-argument",
    "where.maxval": "where-reduction-argument", "where.sumother": "where-reduction-argument",
    "where.size": "where-reduction-argument", "where.2dsum": "where-reduction-argument",
    "where.elem": "where-cross-element", "where.elemmask": "where-cross-element",
    "where.2delem": "where-cross-element", "where.sumbare": "where-cross-element",
    "where.rev": "where-strided-section",
    "where.barerhs": "where-bare-array-name", "where.baremixed": "where-bare-array-name",
    "where.userred": "where-bare-array-name",
    "sel.sidefx": "select-selector-reevaluated",
    "sel.defonly": "select-default-only-reorders-codeblock",
    "do.concurrent": "do-concurrent-index", "do.concurrent2": "do-concurrent-index",
}
C01_EXTENT = re.compile(r":internal:AttributeError@(visitor\.py:_visit|"
                        r"sympy_writer\.py:_create_type_map|"
                        r"fparser2\.py:_where_construct_handler)$")


def c01_rule(sig):
    if C01_EXTENT.search(sig):
        return "assumed-shape-lower-bound"
    culprit = sig.split(":")[0]
    names = re.findall(r"[a-z0-9]+\.[a-z0-9]+", culprit)
    hits = [C01_TEMPLATE[n] for n in names if n in C01_TEMPLATE]
    if not hits:
        return None
    return hits[0]


def c03_rule(sig):
    culprit, kind = sig.split(":", 1)
    if "common" in culprit:
        return "common-block-order"
    if re.match(r"unstable(-pass3)?:added\[integer :: widx\d+(_\d+)?\]", kind):
        return "where-codeblock-leaks-loop-variable"
    return None


def main():
    prop = sys.argv[1]
    rule = {"C01": c01_rule, "C03": c03_rule}[prop]
    sigs = set()
    for dump in sys.argv[2:]:
        with open(dump, encoding="utf-8") as fin:
            sigs |= {json.loads(line)["sig"] for line in fin if line.strip()}
    buckets = {}
    for sig in sorted(sigs):
        name = rule(sig)
        if name is None:
            sys.exit(f"untriaged signature: {sig}")
        buckets.setdefault(name, set()).add(sig)
    for name, lst in sorted(buckets.items()):
        path = os.path.join(ROOT, "known", f"{prop}-{name}.txt")
        old = set()
        if os.path.exists(path):
            with open(path, encoding="utf-8") as fin:
                old = {line.rstrip("\n") for line in fin if line.strip()}
        with open(path, "w", encoding="utf-8") as fout:
            for sig in sorted(old | lst):
                fout.write(sig + "\n")
        print(f"{prop}-{name}: {len(lst)} signatures in the dumps, "
              f"{len(old | lst)} listed -> known/{prop}-{name}.txt")


if __name__ == "__main__":
    main()
