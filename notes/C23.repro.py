"""Stand-alone reproducers for the two C23 findings (run with
PSYCLONE_CONFIG=/repo/config/psyclone.cfg PYTHONPATH=/repo/src /venv/bin/python notes/C23.repro.py)."""
import os
from psyclone.configuration import Config
from psyclone.parse.algorithm import parse
from psyclone.psyGen import PSyFactory
from psyclone.transformations import (DynamoOMPParallelLoopTrans, ACCLoopTrans,
                                      ACCParallelTrans, Dynamo0p3ColourTrans)
import psyclone
BASE = os.path.join(os.path.dirname(psyclone.__file__), "tests", "test_files",
                    "dynamo0p3")
Config.get().api = "dynamo0.3"


def schedule_of(alg):
    _, info = parse(os.path.join(BASE, alg), api="dynamo0.3")
    psy = PSyFactory("dynamo0.3", distributed_memory=False).create(info)
    return psy, psy.invokes.invoke_list[0].schedule


# 1. GH_READINC on W0 (testkern_w0_readinc_mod.f90): parallelised uncoloured
psy, sched = schedule_of("14.15_halo_readinc.f90")
DynamoOMPParallelLoopTrans().apply(sched[1])          # expected: refusal
code = str(psy.gen)
print(code[code.index("!$omp parallel do"):code.index("!$omp end parallel do")])

# 2. GH_WRITE on any_space_1 (testkern_write_any_mod.f90): the loop over
#    colours becomes the target of '!$acc loop'
psy, sched = schedule_of("14.1.1_halo_cont_write.f90")
ACCLoopTrans().apply(sched[0])
Dynamo0p3ColourTrans().apply(sched[0].dir_body[0])    # expected: refusal
ACCParallelTrans().apply(sched[0])
code = str(psy.gen)
print(code[code.index("!$acc parallel"):code.index("!$acc end parallel")])
