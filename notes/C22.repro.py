"""Stand-alone reproducer for C22-write-discontinuous-reads-annexed.

A kernel that updates a W3 (discontinuous) field with GH_WRITE and reads a W1
(continuous) field is looped over the owned cells; the last owned cell reads
the W1 field's ANNEXED DoFs.  With COMPUTE_ANNEXED_DOFS = false PSyclone adds no
halo exchange for the W1 field (the same kernel with GH_READWRITE on the W3
field gets `IF (f2_proxy%is_dirty(depth=1)) CALL f2_proxy%halo_exchange(depth=1)`).

Run: PSYCLONE_CONFIG=/repo/config/psyclone.cfg /venv/bin/python C22.repro.py
"""
import os
import tempfile
from psyclone.configuration import Config
from psyclone.parse.algorithm import parse
from psyclone.psyGen import PSyFactory

KERN = """module {n}_mod
  use argument_mod
  use fs_continuity_mod
  use kernel_mod
  use constants_mod
  type, extends(kernel_type) :: {n}_type
     type(arg_type), dimension(2) :: meta_args = &
       (/ arg_type(gh_field, gh_real, {acc}, w3), &
          arg_type(gh_field, gh_real, gh_read, w1) /)
     integer :: operates_on = cell_column
   contains
     procedure, nopass :: code => {n}_code
  end type {n}_type
contains
  subroutine {n}_code()
  end subroutine {n}_code
end module {n}_mod
"""
ALG = """program alg
  use field_mod, only: field_type
  use {n}_mod, only: {n}_type
  type(field_type) :: f1, f2
  call invoke({n}_type(f1, f2))
end program alg
"""
Config.get().api = "dynamo0.3"
Config.get().api_conf("lfric")._compute_annexed_dofs = False
with tempfile.TemporaryDirectory(dir="/dev/shm") as tmp:
    for name, acc in (("kw", "gh_write"), ("krw", "gh_readwrite")):
        with open(os.path.join(tmp, name + "_mod.f90"), "w") as fout:
            fout.write(KERN.format(n=name, acc=acc))
        with open(os.path.join(tmp, name + "_alg.f90"), "w") as fout:
            fout.write(ALG.format(n=name))
        _, info = parse(os.path.join(tmp, name + "_alg.f90"), api="dynamo0.3",
                        kernel_paths=[tmp])
        psy = PSyFactory("dynamo0.3", distributed_memory=True).create(info)
        code = str(psy.gen)
        print(f"{acc} on w3, gh_read on w1: halo exchange of the w1 field "
              f"generated: {'f2_proxy%halo_exchange' in code}")
