# PYTHONPATH=/repo/src PSYCLONE_CONFIG=/repo/config/psyclone.cfg /venv/bin/python repro.py
import os, sys, tempfile
import psyclone.generator as gen
KERN = "/repo/src/psyclone/tests/test_files/dynamo0p3"
HEAD = """program alg
  use constants_mod, only: r_def, i_def
  use field_mod, only: field_type
  use testkern_mod, only: testkern_type
  use testkern_stencil_mod, only: testkern_stencil_type
  type state_type
    type(field_type) :: f
    type(field_type) :: g(2)
    integer(i_def) :: n
  end type state_type
  type(field_type) :: f1, f2, f3, f4
  type(state_type) :: state
  real(r_def) :: a
  integer(i_def) :: n(2)
"""
CASES = {
 "A (default path) stencil extent n(1) / state%n":
   (False, "call invoke(testkern_stencil_type(f1, f2, n(1), f3, f4), testkern_stencil_type(f1, f3, state%n, f2, f4))"),
 "B (PSyIR path) named invoke with one built-in":
   (True, 'call invoke(setval_c(f1, 1.0_r_def), name="x")'),
 "C (PSyIR path) component after a literal in a kernel + repeated":
   (True, "call invoke(inc_aX_plus_Y(a, state%f, f2), testkern_type(1.0_r_def, f2, f1, f3, state%f))"),
 "D (PSyIR path) component element repeated with different case":
   (True, "call invoke(setval_c(state%g(2), a), setval_c(State%G(2), a))"),
}
for title, (psyir_path, inv) in CASES.items():
    with tempfile.TemporaryDirectory(dir="/dev/shm") as tmp:
        name = os.path.join(tmp, "alg.f90")
        open(name, "w").write(HEAD + "  " + inv + "\nend program alg\n")
        gen.LFRIC_TESTING = psyir_path
        alg, psy = gen.generate(name, api="dynamo0.3", kernel_paths=[KERN],
                                distributed_memory=False)
    print("==", title)
    print("   source:", inv)
    for line in str(alg).splitlines():
        if line.strip().lower().startswith("call "):
            print("   alg:", line.strip())
    for line in str(psy).splitlines():
        if line.strip().upper().startswith("SUBROUTINE"):
            print("   psy:", line.strip())
