# usage: PYTHONPATH=/repo/src /venv/bin/python repro.py
from psyclone.psyir.frontend.fortran import FortranReader
from psyclone.psyir.backend.fortran import FortranWriter
HEAD = "subroutine s(a, b, c, m2, x)\n real, intent(inout) :: a(3), b(0:2), c(0:), m2(3,2)\n real :: x\n"
CASES = {
 "assumed-shape-lower-bound (writer)": " a(1:2) = c(1:2)\n",
 "assumed-shape-lower-bound (reader)": " where (c(:) > 0.0) a(:) = c(:)\n",
 "mask-lower-bound": " where (b(:) > 0.0) a(:) = b(:) * 2.0\n",
 "nested": " where (a(:) > 0.0)\n  where (b(:) > 0.0)\n   a(:) = b(:)\n  end where\n end where\n",
 "reduction-argument": " where (a(:) > 0.0) a(:) = a(:) - sum(a(:))\n",
 "cross-element": " where (a(:) > 0.0) a(:) = a(:) + a(1)\n",
 "strided-section": " where (a(:) > 0.0) a(:) = a(3:1:-1)\n",
 "bare-array-name": " where (a(:) > 0.0) a(:) = b\n",
 "leaked loop variable (C03)": " where (a(2:) > 0.0) a(2:) = b(:1)\n",
}
for name, stmt in CASES.items():
    print("=====", name)
    try:
        t1 = FortranWriter()(FortranReader().psyir_from_source(HEAD + stmt + "end subroutine s\n"))
        print(t1)
        if "C03" in name:
            print(FortranWriter()(FortranReader().psyir_from_source(t1)))
    except Exception as err:
        print("EXCEPTION", type(err).__name__, err)
