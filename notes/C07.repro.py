# Stand-alone reproducers for the C07 findings (run with PYTHONPATH=/repo/src).
from psyclone.psyir.frontend.fortran import FortranReader
from psyclone.psyir.backend.fortran import FortranWriter
from psyclone.psyir.nodes import Call, Routine
from psyclone.psyir.transformations import InlineTrans

def show(title, src):
    tree = FortranReader().psyir_from_source(src)
    InlineTrans().apply(tree.walk(Call)[0])
    print("====", title)
    print(FortranWriter()(tree.walk(Routine)[0]))

show("1 actual re-evaluated: sets a(i+1), Fortran sets a(i)", """module m
contains
subroutine s(a, i)
  integer, intent(inout) :: a(4), i
  call c(a(i), i)
end subroutine
subroutine c(x, y)
  integer, intent(inout) :: x, y
  y = y + 1
  x = 7
end subroutine
end module""")
show("2 callee local g declared in caller captures module variable g", """module m
  integer :: g
contains
subroutine s(k)
  integer, intent(inout) :: k
  g = g + 1
  call c(k)
end subroutine
subroutine c(x)
  integer, intent(inout) :: x
  integer :: g
  g = x
  x = g + 1
end subroutine
end module""")
show("3 x(:) of x(nx): undeclared nx in caller", """module m
contains
subroutine s(a, n)
  integer, intent(in) :: n
  integer, intent(inout) :: a(n)
  call c(a, n)
end subroutine
subroutine c(x, nx)
  integer, intent(in) :: nx
  integer, intent(inout) :: x(nx)
  x(:) = x(:) * 2
end subroutine
end module""")
show("4 automatic array la(nx): undeclared nx in caller's declarations", """module m
contains
subroutine s(a, n)
  integer, intent(in) :: n
  integer, intent(inout) :: a(n)
  call c(a, n)
end subroutine
subroutine c(x, nx)
  integer, intent(in) :: nx
  integer, intent(inout) :: x(nx)
  integer :: la(nx)
  la(1) = x(1)
  x(1) = la(1) + 3
end subroutine
end module""")
show("5 component actual w%d with x(0:mx): x(0) must be w%d(1)", """module m
  type :: ty
    integer :: d(4)
  end type
contains
subroutine s(w)
  type(ty), intent(inout) :: w
  call c(w%d, 3)
end subroutine
subroutine c(x, mx)
  integer, intent(in) :: mx
  integer, intent(inout) :: x(0:mx)
  x(0) = x(0) + 10
end subroutine
end module""")
show("6 lbound/ubound of x(0:mx) are 0 and mx, of a(:) 1 and mx+1", """module m
contains
subroutine s(a, n, m)
  integer, intent(in) :: n, m     ! m = n + 1
  integer, intent(inout) :: a(m)
  call c(a, n)
end subroutine
subroutine c(x, mx)
  integer, intent(in) :: mx
  integer, intent(inout) :: x(0:mx)
  x(0) = lbound(x, 1) + 10 * ubound(x, 1)
end subroutine
end module""")
show("7 x = x + 1 with x(nx) the first nx elements of a larger a", """module m
contains
subroutine s(a, n, m)
  integer, intent(in) :: n, m     ! m = n + 1
  integer, intent(inout) :: a(m)
  call c(a, n)
end subroutine
subroutine c(x, nx)
  integer, intent(in) :: nx
  integer, intent(inout) :: x(nx)
  x = x + 1
end subroutine
end module""")
