"""Source of truth for MANIFEST.json (run tools/gen_manifest.py after editing)."""

NOTES = ("All checks are bounded exhaustive explorations of PSyclone's real code "
         "(see DESIGN.md). VERIF_SEED only permutes work distribution and the "
         "choice of samples; verdicts are seed independent. Known genuine defects "
         "are listed in known_findings.json and printed as KNOWN-FINDING lines.")

ENGINES = [
    {"name": "mc.runner", "path": "/verif/mc/runner.py",
     "serves_properties": [],
     "kind_free_text": "sharded exhaustive enumerator + evidence/replay/known-findings plumbing"},
]

NOT_APPLICABLE = {}

CHECKS = {
    "C27": {
        "level": "model_checking",
        "technique": "exhaustive explicit enumeration of all dependency maps (n<=4 quick, n<=5 thorough) run on the real sort_modules",
        "text": "Every dependency map over up to 4 modules (quick: 69,700 maps; thorough adds all 2^20 maps on 4 modules with self-edges and all 2^20 maps on 5 modules) is passed to the real ModuleManager.sort_modules and judged by an independent permutation + topological-order oracle. The function is pure and small, so complete enumeration of its small-scope input space is the strongest practical statement.",
        "note": "Trusts the 25-line oracle (DFS cycle test, position comparison). Maps over more than 5 modules are not explored; dict insertion order is fixed because any order is a relabelling inside the space.",
    },
}

CHECKS["C14"] = {
    "level": "model_checking",
    "technique": "explicit-state BFS over real PSyIR objects (worlds = seed tree x orphan pool; every child-list/Node editing operation with indices -5..5 from every reachable state; de-duplication on an identity-normalised fingerprint; invariant on every accepted transition, atomicity on every rejected one)",
    "text": "After any sequence of public tree-editing operations every node's parent lists it exactly once and every child is of a kind valid at its position; an operation that raises leaves the tree exactly as it was. quick: 348 worlds, 10.9M transitions, 54k states (pool-free worlds to fixed point, pool 1 depth 3, pool 2 depth 2); thorough: 768 worlds, 99.6M transitions, 436k states. Exhaustive exploration of real objects is the right level because the defects are index/ordering slips that only specific operation sequences expose.",
    "note": "Trusts the 40-line well-formedness/atomicity oracle and the fingerprint (creation-order ids). Bounded by the seed trees, the orphan pool and the depth per pool size. Five genuine defects found by this check were repaired (fix: commits, see known_findings.json).",
}
CHECKS["C16"] = {
    "level": "model_checking",
    "technique": "explicit-state BFS over real SymbolTable/ScopingNode objects (state = operation history replayed on fresh objects, de-duplicated on an identity-normalised fingerprint) against a dict-of-scopes reference model evaluated on every state and transition",
    "text": "Eight operation alphabets over three nested scopes plus a spare table (names a/A/b/a_1/B, tags, 8 symbol kinds, 16 operation families incl. merge with skip lists, attach/detach, deep_copy) are explored exhaustively to history length 2-4 (quick: 11,860 states, 795,088 transitions) / 2-6 (thorough: 186,946 states, 7.7M transitions); every lookup, tag lookup, generated name, clash check and Routine copy is compared with an independent reading of the tables, and every rejected operation must leave all tables unchanged.",
    "note": "Bounded: histories up to the stated lengths per alphabet, not their union at full depth; over-rejection is never judged. Four genuine atomicity/merge defects found by this check were repaired (fix: commits).",
}
CHECKS["C18"] = {
    "level": "model_checking",
    "technique": "bounded exhaustive enumeration of free-form line shapes x line limits run through the real FortLineLength; oracle = independent logical-line joiner (bound to gfortran parse-tree dumps and fparser's reader), length bound, idempotence, reference wrappability for refusals",
    "text": "18 line heads x 3 indentations x separators x item patterns (<=2 quick, <=3 thorough) x 4 tails, stretched to 38..202 characters, x 33 (quick) / all 93 (thorough) limits 40..132: 2.24M / 92M (line, limit) pairs. Every output must respect the limit, join back to the same statements/directives/comments, and be a fixed point of a second pass.",
    "note": "A clean InternalError on a line with no usable break character is an allowed refusal. The joiner is the trusted base; it is cross-checked against gfortran and fparser on a per-head subset in every run (disagreement = harness error). Three genuine defects found by this check were repaired (fix: commits).",
}
CHECKS["C17"] = {
    "level": "model_checking",
    "technique": "exhaustive enumeration of integer expression pairs (<=1 operator each; 2-operator left sides over reduced leaves) through the real SymbolicMaths.equal/never_equal/solve_equal_for/expand; every positive claim evaluated on all 729 valuations x 2 array contents by the E1 integer evaluator",
    "text": "Every claim SymbolicMaths makes (equal, never equal, a finite solution set, an expansion) about a pair of the enumerated expressions is checked against Fortran integer semantics on every valuation of i,j,n in -4..4. A False/'independent' answer is a non-claim.",
    "note": "Trusts E1's integer arithmetic (truncating division, MOD sign, MIN/MAX). Open finding C17-int-division-exact: claims that hold only if integer division were exact.",
}

CHECKS["C08"] = {
    "level": "model_checking",
    "technique": "exhaustive enumeration of loops (subscript pairs x headers x scalar patterns x nests) through the real DependencyTools.can_loop_be_parallelised under a CPU-time watchdog; every True verdict is checked by executing the loop in the E1 interpreter on all inputs and comparing the recorded per-iteration access sets of all iteration pairs",
    "text": "For every enumerated loop that the analysis reports parallelisable, no two distinct iterations (of one execution of that loop) touch the same memory location with at least one write on any enumerated input, except scalars written first in every iteration that touches them; the analysis must answer within 60 s of CPU time. quick 1.5k loops, thorough 2.9k loops, inputs n=0..5 x k x index-array contents.",
    "note": "Dynamic Bernstein conditions on bounded inputs (n<=5): a dependence that needs more than 5 iterations to manifest is not seen. False verdicts are never judged. Open findings: integer-division subscripts, conditionally written scalars. Fixed: non-termination with variables d_i/d1_i.",
}

CHECKS["C06"] = {
    "level": "model_checking",
    "technique": "exhaustive enumeration of array-assignment / intrinsic statements x lowering transformations x target nodes on the real PSyclone code; every accepted result executed by the E1 reference interpreter on all enumerated inputs and compared with the original's observable store",
    "text": "425 (quick) / 657 (thorough) programs built from an array-section grammar (overlap, shift, stride, reversal, different lower bounds, constant indices) and an intrinsic grammar (ABS/SIGN/MIN/MAX, DOT_PRODUCT, MATMUL, SUM/PRODUCT/MINVAL/MAXVAL with dim/mask) in four embeddings; every lowering transformation is attempted on every matching node; inputs n=0..3 x scalar pairs (all 36 pairs of {-2..3} for scalar intrinsics).",
    "note": "E1 is the trusted semantics (array assignment evaluates the RHS first; exact rationals). ABS/SIGN/MIN/MAX are only attempted on real scalar arguments (documented domain). Open findings: ArrayAssignment2Loops (overlap/stride), Matmul/DotProduct (lower bounds), reduction2loop dropping the assignment.",
}

CHECKS["C05"] = {
    "level": "model_checking",
    "technique": "exhaustive enumeration of loop programs x target nodes x loop transformations (x option sets) on the real PSyclone code; every accepted result is executed by the E1 reference interpreter on all inputs n=0..5 (zero-trip, single-trip, negative and non-unit steps included) and its observable store compared with the original's",
    "text": "quick: 1.8k programs / 35k attempts; thorough: 26.6k programs / 705k attempts (LoopFuse in both argument orders, LoopSwap, ChunkLoop chunksize 1-4, LoopTiling2D, Hoist, HoistLoopBoundExpr, ReplaceInductionVariables, FoldConditionalReturnExpressions; negative-literal-step program variants built through the PSyIR API). Store equality under an exact interpreter is the strongest oracle available without a proof of each transformation.",
    "note": "E1 is the trusted semantics; post-loop values of loop variables and transformation temporaries are not observed; refusals and non-TransformationError exceptions are not judged. Open findings: zero-trip hoisting (HoistTrans, ReplaceInductionVariables), LoopFuse dependences/argument order, LoopSwap/LoopTiling without dependence analysis, ChunkLoop negative literal step. Fixed: ChunkLoop step not dividing chunk size.",
}

CHECKS["C02"] = {
    "level": "model_checking",
    "technique": "exhaustive enumeration of all type-correct PSyIR expression trees up to depth 3 (operands in every child position) built with the PSyIR API, written by the real FortranWriter, checked with gfortran -std=f2008 and read back by the real FortranReader; structural comparison by an independent skeleton walker; E1 evaluation classifies mismatches as value-changing or structure-only",
    "text": "quick: 20k trees (all depth<=2 trees over 10 numeric / 2 logical leaf kinds incl. signed literals, kind-suffixed literals, array/structure accesses and intrinsic calls; all depth-3 trees over reduced leaf sets); thorough: 258k trees incl. depth-4 spines. Each written expression must be standard conforming and re-read to a structurally equal tree.",
    "note": "A signed Literal is identified with MINUS(literal) after the round trip (weaker than the text). Only syntax/conformance diagnostics of gfortran count (constant-folding errors such as division by zero are ignored). Open findings: signed literals not parenthesised; unary left operand of * / ** not parenthesised. Fixed: (a**b)**c.",
}

CHECKS["C15"] = {
    "level": "model_checking",
    "technique": "bounded exhaustive enumeration of edit histories over (original subtree, copy) pairs of real PSyIR trees; reflective object-graph oracle at copy time, written-code invariance of the unedited side after every edit",
    "text": "For every node of 11 seed programs (kinds, array bounds, initial values, imports, generic interfaces, nested/shadowing scopes, loops, OpenMP directives before and after lowering, derived types, multi-unit files) the copy must be equal (PSyIR == and an independent shape dump), well-formed, share no node/table/symbol entry, and every use of a symbol declared inside the copied scopes must be the copy's own symbol; after every sequence of <=2 (quick, 166k sequences) / <=3 (thorough, 3.1M) public-API edits on either side the written code of the other side must be byte-identical.",
    "note": "Symbols of enclosing, not-copied scopes are shared by design and never edited. Depth-3 sequences only over the 10 core edit operators. Open finding: copies keep the original's symbols inside datatypes / initial values / literal precision (repair ~140 lines, not small). Fixed: shared interface objects, function copies never equal.",
}
CHECKS["C10"] = {
    "level": "model_checking",
    "technique": "explicit-state BFS over operation histories replayed on fresh real PSyIR trees, de-duplicated on view()+writer text; gfortran two-pass (syntax + full compile) batch oracle and an independent line-based directive-structure checker on every state",
    "text": "All histories of length <=2 over the full OpenMP or OpenACC transformation alphabet (17 transformations, every loop / child range / directive target, collapse and clause variants) and <=3 over an 11-operation core alphabet on 6 seed routines (quick: 10.7k states, 29k transitions); at every state FortranWriter must either refuse or emit text that gfortran -fopenmp -fopenacc accepts and whose directive structure is valid (worksharing inside parallel, no nested parallel, collapse(n) over n perfectly nested loops, matched begin/end).",
    "note": "Dependence analysis is switched off (force) because structure, not dependences, is this property's subject; OpenMP and OpenACC alphabets are never mixed; gfortran 'not supported yet' diagnostics are not counted. Fixed: collapse over imperfect nests, acc loop not on a loop, nested OpenACC compute constructs, enclosed acc routine. Open: target/do inside omp loop, omp do closely nested in omp do.",
}

CHECKS["C11"] = {
    "level": "model_checking",
    "technique": "bounded exhaustive enumeration of statement forms x operand shapes x all small inputs; the real VariablesAccessInfo of every statement and enclosing node is compared with the access trace of the E1 reference interpreter (callee bodies executed, intrinsic-subroutine effects from a table of the standard's argument intents)",
    "text": "2.3k (quick) / 27.9k (thorough) programs: assignments with nested expressions, computed subscripts, structure members and sections, loops, IF conditions, calls to same-file routines with every intent combination, intrinsic subroutines, allocate/deallocate, inquiry intrinsics. Required: actual reads are reported READ/READWRITE, actual writes WRITE/READWRITE (Signature level), and in an assignment every reported rhs read precedes the reported write of the target. Over-reporting is never judged.",
    "note": "Weaker reading: allocation-status changes and callee side effects on module variables are not judged; character arguments, elemental calls on arrays and WHERE are not enumerated. Open finding: arguments of PURE subroutines reported READ only (an existing test relies on it). Fixed: inquiry-argument subscripts, IntrinsicCall output arguments.",
}

CHECKS["C12"] = {
    "level": "model_checking",
    "technique": "exhaustive enumeration of small straight-line programs and of all their consecutive statement regions; real CallTreeUtils / ExtractTrans / ExtractNode lowering; oracle = E1 reference interpreter run under a save / poison / replay / restore region protocol with a read-write tracer; E1 bound to gfortran on the corpus",
    "text": "quick: 844 programs = 5.7k statement regions (top-level and nested) x 6 inputs; thorough: 8,250 programs = 67.7k regions. Each region is analysed by the real get_in_out_parameters and by ExtractTrans+ExtractNode (lists read from the generated ProvideVariable calls) and executed by E1: upward-exposed reads must be inputs, written variables outputs, and a replay from a store holding only the reported inputs must reproduce every value the region wrote.",
    "note": "Compared by variable name; only locations the region wrote are compared in the replay. Inputs are 6 vectors steering every branch and 0..3 loop trips; arrays have extent 5. Open finding: is_written_first is per variable (partially / conditionally written variables are dropped from the inputs).",
}
CHECKS["C13"] = {
    "level": "model_checking",
    "technique": "exhaustive enumeration of small programs x compute placements x data-region ranges; real ACCKernelsTrans / ACCLoopTrans / ACCParallelTrans / ACCDataTrans / FortranWriter; oracle = E1 reference interpreter with a host and a device store driven by the directive hook, compared with the one-store run; independent needed-clause computation executed as a self-check for every violation",
    "text": "quick: 763 programs x 3 compute placements (kernels per statement, kernels per maximal run, parallel+loop) x every consecutive range of top-level statements = 6.7k data regions x 6 inputs; thorough: 5,474 programs = 62.6k regions. Each accepted ACCDataTrans region is executed with separate device copies under exactly the copyin/copyout/copy clauses the FortranWriter prints; final host arrays must equal the host run.",
    "note": "Scalars are outside the claim. Regions in which a host statement and a compute construct share an array (one writing it) need update directives and are counted, not judged. Open findings: partially written arrays in copyout; arrays only touched by host statements of the region placed in copyout/copy.",
}

CHECKS["C09"] = {
    "level": "model_checking",
    "technique": "schedule exploration: for every loop the real OpenMP transformations accept (no force), the lowered tree is executed by E1 in OpenMP mode for EVERY set partition of the iteration set into at most T thread blocks (T=3 quick, 4 thorough), with per-thread copies for the private/firstprivate clauses PSyclone generates; data-race detection on shared locations plus comparison of the final shared store with the serial run",
    "text": "Loops = the C08 corpus (1.7k quick / 3.2k thorough) x variants (OMPParallelLoopTrans, OMPLoopTrans(do)+OMPParallelTrans; thorough adds paralleldo, loop, teamsdistributeparalleldo) x collapse none/2; quick: 57k (loop, input, schedule) executions, thorough: 550k. Partitions with in-order blocks are exactly the outcomes static/dynamic/guided schedules can produce (up to thread renaming) for <=6 iterations; without a race the sequential composition of the thread blocks is representative of every interleaving.",
    "note": "Clause semantics are modelled (private undefined at entry, firstprivate initialised at region entry, everything else shared); post-region values of private/firstprivate scalars are not compared; inputs with more than 6 collapsed iterations are skipped. libgomp is not used. Open findings: integer-division subscripts, collapse(2) ignoring inner-loop dependences, conditionally written scalars made firstprivate, write-only scalars left shared.",
}

CHECKS["C28"] = {
    "level": "model_checking",
    "technique": "exhaustive enumeration of small control-flow programs x every consecutive statement range at every nesting level x the four PSyData transformations x naming configurations (and pairs of regions) x one input per distinct control-flow path; the instrumented code written by FortranWriter is compiled with gfortran against a tracing PSyData stub library and run; a stack automaton judges every trace; E1 re-runs GOTO-free elements as a cross-check",
    "text": "quick: 3,958 elements / 26k executed runs; thorough: 81.6k elements / 732k runs. Programs are all sequences of <=3 statements over assignments, loops, if(c) exit|cycle|return|goto, labelled continue and branches (loop depth <=2). Every executed trace must be a well-nested sequence of matching ENTER/EXIT events, closed at the end, and no two static regions may share a (module, region) name unless the user passed the same explicit name.",
    "note": "gfortran + the 5-module stub library (mc/c28_stub) are the reference execution; refusals are allowed outcomes. Fixed: regions left/entered by EXIT/CYCLE/GOTO were accepted; ExtractTrans accepted regions containing RETURN.",
}
CHECKS["C07"] = {
    "level": "model_checking",
    "technique": "bounded-exhaustive caller x callee x call-site enumeration; real InlineTrans on every call; the written and re-read result is executed by the E1 reference interpreter and compared with by-reference execution of the original on n=1..3 x k=1..2; Fortran aliasing rules enforced by an admissibility monitor; gfortran cross-check of the originals",
    "text": "quick: 1,462 programs (scalar/array/element/section/structure/expression actuals, clashing local and module names, explicit- and assumed-shape dummies with non-unit lower bounds, functions, calls in loops/ifs/expressions), 1,510 accepted inlinings executed 8.5k times; thorough: the quick corpus plus the complete scalar-dummy families (bodies of <= 3 statements, <= 3 scalar dummies, all call contexts; 10.4k programs in all). The caller's observable store (dummies + module variables) must be unchanged by inlining.",
    "note": "The transformed program that is executed is the FortranWriter text re-read by the frontend (so name capture is visible). Inadmissible originals (aliasing violations, definition of expression-associated dummies) are skipped. Open findings: actual arguments re-evaluated at each use (call-by-name), undeclared extent names from explicit-shape dummies / automatic arrays, structure-member actuals not shifted, bounds inquiries answered for the actual, smaller explicit-shape dummies. Fixed: local capturing a module variable.",
}
CHECKS["C29"] = {
    "level": "model_checking",
    "technique": "stateless model checking of the implementation: real psy.gen runs execute as threads under a baton scheduler whose scheduling points are exactly the file-system operations of CodedKern.rename_and_write (os/open proxies in psyclone.psyGen's namespace); iterative preemption bounding; every maximal schedule executed once, one per work item re-executed for determinism",
    "text": "Both kernel-renaming schemes, 1-3 concurrent PSyclone runs (identical kernel, differently transformed kernel, different kernel, two kernels in one run), directory empty or pre-populated: all interleavings for two runs (complete, up to 5 preemptions) and three runs up to 3 (AAA) / 1 (AAB) preemptions in quick (511 schedules, 4.3k FS operations); thorough extends the three-run bounds. Oracle per complete schedule: fresh files per run under 'multiple', names inside each file match the file, each PSy layer uses what it wrote, 'single' shares identical kernels and fails differing ones.",
    "note": "Sound reductions (os.close and pid-private files not branched on; same-typed runs start in index order) are cross-checked against the unreduced two-run system. Deadlock, divergence on replay and step timeouts are harness errors. Fixed: 'single' scheme reader could see the creator's empty file (atomic publish by link).",
}

CHECKS["C19"] = {
    "level": "model_checking",
    "technique": "exhaustive enumeration of tangent-linear kernels x active-variable sets through the real psyad generate_adjoint_str; both codes executed by the exact E1 interpreter (Fractions) on every unit vector of the active state for every passive valuation: the adjoint's matrix must be exactly the transpose of the tangent-linear matrix (=> <Ax,y> = <x,A*y> for all x,y), with additivity/homogeneity probes and passive variables unchanged; thorough also compiles and runs the generated test harness",
    "text": "quick: 1,001 kernels / 1,411 (kernel, active set) elements, 175k E1 runs; thorough: 3,889 kernels / 5,829 elements plus the gfortran-compiled harness for the quick elements. Kernels are product families of assignments A = sum c_k*B_k (increments, scalings, zeroing; literal/passive/array coefficients; division by passive), loops with steps +-1, 2, -3 and expression bounds, nesting, and IF blocks on passive data.",
    "note": "Exact rational arithmetic: no tolerance. Kernels PSyAD documents as unsupported (issue #1458) are skipped; refusals are allowed. Open finding: a zero-trip loop with |step|>1 executes one iteration in the adjoint (MOD vs MODULO; three text-comparison tests pin MOD). Fixed: sign of a subtracted increment term; unbracketed lower bound in the reversed-loop offset.",
}

CHECKS["C01"] = {
    "level": "translation_validation",
    "technique": "exhaustive bounded corpus of generated Fortran programs; real FortranReader + FortranWriter; original and re-written text both compiled by gfortran (-std=f2008 -fimplicit-none -fcheck=bounds) and executed on every enumerated input; printed values compared",
    "text": "269 statement templates (DO incl. zero-trip/negative/strided/named/EXIT/CYCLE, IF, SELECT CASE over integer/logical/character selectors with ranges/lists/DEFAULT positions, WHERE/ELSEWHERE incl. masks with other lower bounds and reductions, array sections, named/optional arguments, canonicalised intrinsics, CodeBlocks) x 3 declaration hosts, alone, nested and in sequences of <=2 (quick: 893 programs, 9.4k (program,input) comparisons) / <=3 (thorough: 5,408 programs, 105k comparisons). Reading+writing must not raise an internal error, the written text must compile, and its output must equal the original's on every input.",
    "note": "gfortran 12 is the reference semantics (no E1 involved). Originals that do not compile or are undefined are generator errors (harness error). 10 open findings (7 in the WHERE lowering, SELECT selector re-evaluation, CodeBlock/SELECT DEFAULT reordering, DO CONCURRENT index), patches prepared for 6 of them under fixes/.",
}
CHECKS["C03"] = {
    "level": "model_checking",
    "technique": "exhaustive bounded corpus (C01 statement templates + declaration-feature sets) pushed through three real read+write passes; byte comparison of successive outputs and multiset comparison of CodeBlock/verbatim lines",
    "text": "quick: 3,441 programs / 10k passes; thorough: 19.7k programs / 58.6k passes. t1 = W(R(src)), t2 = W(R(t1)), t3 = W(R(t2)) must satisfy t1 == t2 == t3 byte for byte, and no CodeBlock banner or verbatim line may be lost or duplicated.",
    "note": "This version's FortranReader cannot keep source comments/directives, so the comment/directive clause is checked on what the writer emits itself. Programs the reader rejects cleanly are counted, not failed. 2 open findings (leaked WHERE loop variable declaration grows each pass; COMMON statement changes position).",
}

CHECKS["C25"] = {
    "level": "model_checking",
    "technique": "explicit-state BFS over accepted GOcean transformation histories of generated 1-2 kernel invokes (every index offset x grid-point type x built-in / user-defined iteration space loaded through a generated psyclone.cfg); each state is lowered by PSyclone and executed by the E1 reference interpreter on mock dl_esm_inf field objects for every enumerated grid; the recorded (kernel, i, j) visits are compared with a 10-line region evaluator",
    "text": "135 one-kernel invokes (3 offsets x 5 grid-point types x {go_all_pts, go_internal_pts, go_external_pts, 6 user-defined spaces}) plus two-kernel families, x constant-loop-bounds on/off x 25 grids (internal region starting at 2, stops 1..5 incl. empty) x BFS over the ten GOcean transformations (quick depth 1 + leading GOConstLoopBoundsTrans: 8k states; thorough depth 2: 82k states). Each kernel must be called exactly once per point of its region, in invoke order per point, before and after every accepted history.",
    "note": "dl_esm_inf is not vendored: without constant loop bounds the expected region is the rectangle stored in the mock field, with them a frozen transcription of the built-in table; grids whose internal region does not start at 2 are outside the domain ({start} is documented as 2) and are not enumerated; go_offset_any vs field rectangle on mixed invokes is not judged. Fixed: go_every ignoring user-defined spaces, loop fusion across different index offsets, move-boundaries on a shared loop.",
}

CHECKS["C20"] = {
    "level": "model_checking",
    "technique": "exhaustive enumeration of all LFRic built-ins x configurations (distributed memory, annexed-DoF setting, OpenMP variants) x enumerated argument values: the real generated algorithm + PSy layers are compiled with gfortran against the bundled LFRic stub infrastructure and executed; every DoF and reduction result is compared exactly with a formula table transcribed from the user guide (cross-checked mechanically against the built-in metadata); loop DoF ranges are read from the generated text and compared with the documented range",
    "text": "All 68 built-ins in BUILTIN_MAP, dm {F,T} x COMPUTE_ANNEXED_DOFS {F,T} x {no OpenMP, parallel-do, parallel+do, reprod reductions}, W0 and W3 fields, OMP_NUM_THREADS 1-3; values: all 36 pairs of {-2..3} per DoF plus a distinct non-integer pattern, real scalars {-2,0,3,0.5}, integer scalars {-2,0,3} (quick: 16k executed invokes, 1.28M DoF values compared, 1.1k loop bounds judged; thorough: 122k / 8.7M / 4.8k). Part B judges the loop upper bound (undf / last owned / last annexed / last halo(d) after redundant computation) against the documentation.",
    "note": "The stub infrastructure has no real halos, so values are checked on all DoFs and DoF RANGES are decided structurally from the generated bounds (documented deviation from the ring-machine design). DoFs whose documented value is undefined (x/0, negative**real) are executed but not judged. Fixed: redundant computation accepted reduction loops.",
}

CHECKS["C22"] = {
    "level": "model_checking",
    "technique": "explicit-state BFS over accepted LFRic transformation histories of generated 1-3 kernel distributed-memory invokes x every initial halo state; the REAL generated PSy layer is re-read and executed by the E1 interpreter in lock-step on a concrete two-partition ring machine (mc/lfring: owned/annexed/halo DoFs to depth 3, per-depth dirty flags, halo exchanges, colour maps, stencil dofmaps) and compared with a global serial run",
    "text": "Invokes of 1-2 (quick) / 1-3 (thorough) kernels over 3 fields with per-argument access {READ, WRITE, INC, READINC, READWRITE} x continuous / discontinuous / any_space x stencils (x1d/cross/region, extent 1-2) plus dof built-ins, x annexed setting x every initial halo state per field (dirty, clean to 1,2,3) x BFS over <=2 / <=3 accepted transformations (redundant computation depth 1,2,max; colouring; OpenMP; async halo exchange; moving a halo exchange; loop fusion): quick 190k executions of 5.1k PSy layers, thorough 827k / 17k. Oracles use values only: owned DoFs equal the serial run; every halo copy within a claimed-clean depth equals the owner's value; no undefined value flows into an owned DoF.",
    "note": "The ring machine is the trusted model of the LFRic runtime (transcribed from the shipped infrastructure sources and developer guide; a model-fidelity self-test runs at start-up, failure = exit 2). N=4 cells per partition, halo depth 3, one layer; OpenMP regions executed serially; fused loops judged only when serially equivalent. Fixed: GH_WRITE-only kernels on discontinuous fields read dirty annexed DoFs when annexed computation is off.",
}

CHECKS["C23"] = {
    "level": "model_checking",
    "technique": "explicit-state BFS over histories of the nine LFRic colouring / OpenMP / OpenACC / fusion / move transformations (no force options) on generated 1-2 kernel invokes for every legal (access x function space) kernel; state = schedule view; every accepted state holding a work-sharing directive is generated with the real psy.gen and judged by two independent structural oracles (schedule tree and generated Fortran text) using the check's own table of which kernels increment a continuous space",
    "text": "26 legal kernels (GH_INC/READINC/WRITE/READWRITE x w0..wtheta, any_space, any_discontinuous_space...), 1- and 2-kernel invokes, dm off and on; quick: single-kernel invokes to depth 3, pairs to depth 2-3 (180k operation applications, 36.8k states, 5.1k generated and judged); thorough: depth 4 / 3 (4.2M applications, 790k states, 104k judged). No parallel (omp do / parallel do / acc loop) loop over cells may contain a kernel incrementing a continuous or unknown space unless it is a loop over the cells of one colour; no loop over colours may sit under a parallel directive.",
    "note": "Weaker reading: a state is 'produced' only when psy.gen succeeds; loops merely inside acc parallel/kernels regions (PSyclone's documented recipe) are counted, not judged; `same_space` is treated as a force option. Fixed: GH_READINC not treated as an increment; colouring allowed under an acc loop directive.",
}

CHECKS["C04"] = {
    "level": "model_checking",
    "technique": "exhaustive bounded enumeration of (a) a declaration corpus read and re-written, (b) API-built symbol tables: every dependency-closed subset of 16 entities x every insertion order, (c) symbols placed in nested scopes under clashing names, (d) explicit-state BFS over histories of 22 symbol-adding transformations on 12 seed routines whose locals collide with the names transformations invent; oracle = gfortran -fimplicit-none -std=f2008 (batched, repeated until clean), an independent text-level declare-once / declare-before-use reader, and alpha-equivalence with the same history on a unique-names variant (captured references)",
    "text": "quick: 2.8k corpus programs, 3.7k API tables, 1k nested-scope configurations, 1.3k BFS states / 6k transformation applications, 22 generated PSy layers (8.9k evaluations, 154 gfortran runs); thorough: 14k / 36k / 8k / 9.3k states. Every written unit must compile with implicit typing disabled, declare or import each referenced name exactly once, declare every entity before any declaration that depends on it, and rename clashing inner-scope symbols without capturing other references.",
    "note": "Signed-operand (C02) and directive-placement (C10) diagnostics are ignored here; OpenMP and OpenACC are never mixed in one history; a documented writer refusal is an allowed outcome, any other writer exception a violation. Fixed (6 defects, 4 commits): forward-referenced derived type lost, declaration dependency order (parameter shapes, argument bounds, component types), inner symbol capturing a module symbol, PSyData region scope symbols dropped.",
}

CHECKS["C26"] = {
    "level": "fault_enumeration",
    "technique": "enumeration of every concrete Transformation class found by introspection (78) x every target of the seed programs (statement nodes, expression nodes per structural context, consecutive child lists, ill-formed lists, non-nodes) x option singles/pairs/triples from the docstrings, plus fault injection: every nested validate/apply/SymbolTable.merge/rename_symbol call is re-run once with that call refusing; whenever TransformationError propagates the fingerprint (FortranWriter or psy.gen text + every symbol table + tree skeleton) must be unchanged",
    "text": "quick: 857 work items, 376k plain attempts + 16k injected re-executions, 124k distinct non-trivial, 136 of 299 `raise TransformationError` sites reached; thorough: 4.85M attempts + 646k injections, 203 of 299 sites. PSyIR seeds for generic transformations, LFRic and GOcean PSy-layer seeds for domain transformations (incl. a module-inlined history).",
    "note": "Only TransformationError is judged (other exception types are counted); injected refusals swallowed by try/except are counted; for PSy layers symbol tables are not part of the fingerprint (loop-bound symbols are created lazily by read-only queries). The quick tier hits an injection cap of 3 and an option-pair cap of 10 per target (exhaustive=false is reported). Open: verbose option leaves a comment before refusing; KernelModuleInlineTrans adds use statements before refusing; composite transformations keep applied sub-steps when a later nested call is MADE to refuse (injection only). Fixed: four non-atomic refusals.",
}

CHECKS["C24"] = {
    "level": "model_checking",
    "technique": "exhaustive enumeration of LFRic algorithm programs: every set partition of the field-argument positions of 1-2 (quick) / 1-3 (thorough) kernel sequences x spelling palettes (plain names, array elements, structure components, clash candidates, case and blank variations) x invoke naming assignments, pushed through the real generator on BOTH code paths (alg_gen.Alg rewrite and the PSyIR algorithm path); a static positional oracle built from the generated source program (not PSyclone's parse) traces every kernel-argument position back to the algorithm actual; accepted programs are also compiled against the stub infrastructure and executed against an exact reference evaluation",
    "text": "quick: 695 programs x 2 paths, 8.2k argument positions resolved, 113 invokes compiled and executed; thorough: 5.9k programs, 84k positions, 7.8k executed invokes. The generated algorithm call must pass exactly the PSy routine's dummies in order; repeated arguments map to one dummy, distinct ones to distinct dummies; every kernel operates on the data of the argument written at that position.",
    "note": "Repeats inside one kernel are refused by PSyclone for every kernel and are only checked to be refused. Named invokes are renamed in executed programs (names judged statically). Open (PSyIR path only): a structure-component actual in a kernel call that also has a real literal becomes a CodeBlock and is not de-duplicated; SymbolicMaths.equal compares member names case-sensitively. Fixed: stencil extent actual replaced by the dummy name; named single-built-in invoke called by index.",
}

CHECKS["C21"] = {
    "level": "model_checking",
    "technique": "exhaustive enumeration of LFRic kernel metadata from a grammar (filtered by PSyclone's own metadata validation); for each valid description the real PSy-layer generator (caller) and the real kernel-stub generator (callee) are run and their argument lists compared position by position (count, type, kind, rank, definability, role) by an independent reader of both Fortran texts, against a model of the documented ordering rules for cell-column kernels, and by compiling stub + PSy layer together with gfortran against the stub infrastructure",
    "text": "quick: 1,370 metadata descriptions (scalars, fields on w0..wtheta/any_space/any_discontinuous_space with every legal access, field vectors, stencils incl. cross2d and direction, operators, CMA operators, basis/diff-basis with each quadrature shape and evaluators, mesh and reference-element properties), 984 with both sides produced, 13.6k positions compared, 249 gfortran units; thorough: 20.2k descriptions, 216k positions, every unit compiled.",
    "note": "Refusals by either generator (inter-grid and domain stubs, fixed stencil extents, basis on any_space in stubs) are counted, not judged; documented-order ambiguities are accepted in any order. Fixed: basis arrays not in gh_shape order in the call; nfaces_re_h undeclared with adjacent_face; stub stencil sizes all given the first stencil's rank.",
}
