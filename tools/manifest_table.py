"""Source of truth for MANIFEST.json (run tools/gen_manifest.py after editing)."""

NOTES = ("All checks are bounded exhaustive explorations of PSyclone's real code "
         "(see DESIGN.md). VERIF_SEED only permutes work distribution and the "
         "choice of samples; verdicts are seed independent. Known genuine defects "
         "are listed in known_findings.json and printed as KNOWN-FINDING lines.")

ENGINES = [
    {"name": "mc.runner", "path": "/verif/mc/runner.py",
     "serves_properties": [],
     "kind_free_text": "sharded exhaustive enumerator + evidence/replay/known-findings plumbing"},
]

NOT_APPLICABLE = {}

CHECKS = {
    "C27": {
        "level": "model_checking",
        "technique": "exhaustive explicit enumeration of all dependency maps (n<=4 quick, n<=5 thorough) run on the real sort_modules",
        "text": "Every dependency map over up to 4 modules (quick: 69,700 maps; thorough adds all 2^20 maps on 4 modules with self-edges and all 2^20 maps on 5 modules) is passed to the real ModuleManager.sort_modules and judged by an independent permutation + topological-order oracle. The function is pure and small, so complete enumeration of its small-scope input space is the strongest practical statement.",
        "note": "Trusts the 25-line oracle (DFS cycle test, position comparison). Maps over more than 5 modules are not explored; dict insertion order is fixed because any order is a relabelling inside the space.",
    },
}
