#!/venv/bin/python
"""Development aid: turn a VERIF_DUMP_VIOL file into known-finding signature
side files.  usage: mk_known.py DUMP PROP  (rules are in RULES below).
Every signature of the dump must be matched by exactly one rule, otherwise the
tool stops: nothing is listed that has not been triaged into a finding."""
import json
import os
import re
import sys

ROOT = os.path.dirname(os.path.dirname(os.path.abspath(__file__)))

# property -> list of (finding id, regex on sig, side file or None)
RULES = {
    "C05": [
        ("C05-hoist-zero-trip", r"^HoistTrans\|moved-assignment", None),
        ("C05-replace-induction-zero-trip", r"^ReplaceInductionVariablesTrans\|moved-assignment", None),
        ("C05-loopfuse-dependence", r"^LoopFuseTrans@", "known/C05-loopfuse.txt"),
        ("C05-loopswap-no-dependence-analysis", r"^LoopSwapTrans@", "known/C05-loopswap.txt"),
        ("C05-looptiling-no-dependence-analysis", r"^LoopTiling2DTrans\(", "known/C05-looptiling.txt"),
        ("C05-chunkloop-negative-step", r"^ChunkLoopTrans\(\d\)@L\d\|.*~negstep\|", "known/C05-chunkloop-negstep.txt"),
    ],
    "C06": [
        ("C06-arrayassign-overlap-or-stride", r"^ArrayAssignment2LoopsTrans@", "known/C06-arrayassign.txt"),
        ("C06-matmul-lower-bounds", r"^Matmul2CodeTrans@", "known/C06-matmul.txt"),
        ("C06-dotproduct-lower-bounds", r"^DotProduct2CodeTrans@", "known/C06-dotproduct.txt"),
        ("C06-reduction2loop-drops-assignment", r"^(Minval|Maxval|Sum|Product)2LoopTrans@", "known/C06-reduction2loop.txt"),
    ],
    "C09": [
        ("C09-integer-division-subscript", r"^race:[^:]*:.*/ 2", "known/C09-intdiv.txt"),
        ("C09-collapse-ignores-inner-loop-dependences", r"^race:[^:]*collapse2:(?!.*/ 2)", "known/C09-collapse.txt"),
        ("C09-conditionally-written-scalar-firstprivate", r"^result:[^:]*:(?!.*/ 2).*cw-r", "known/C09-condwrite.txt"),
        ("C09-shared-scalar-written-in-every-iteration", r"^race:(parallelloop|do\+parallel|paralleldo|loop\+parallel|teamsdistributeparalleldo):(?!.*/ 2)(C|CC|NC|P|Q):", "known/C09-sharedscalar.txt"),
    ],
    "C08": [
        ("C08-integer-division-subscript", r"^carried-dependence:array:.*/ 2", "known/C08-intdiv.txt"),
        ("C08-conditional-scalar-write", r"^carried-dependence:scalar:.*\bcw", "known/C08-condwrite.txt"),
    ],
}


def main():
    dump, prop = sys.argv[1], sys.argv[2]
    rows = [json.loads(l) for l in open(dump)]
    sigs = sorted({r["sig"] for r in rows})
    buckets = {}
    for sig in sigs:
        hits = [(fid, path) for fid, pat, path in RULES[prop] if re.search(pat, sig)]
        if len(hits) != 1:
            sys.exit(f"signature matched by {len(hits)} rules: {sig}")
        buckets.setdefault(hits[0], []).append(sig)
    for (fid, path), lst in sorted(buckets.items()):
        print(f"{fid}: {len(lst)} signatures -> {path or 'inline'}")
        if path:
            full = os.path.join(ROOT, path)
            os.makedirs(os.path.dirname(full), exist_ok=True)
            old = set()
            if os.path.exists(full) and "--merge" in sys.argv:
                old = {l.rstrip("\n") for l in open(full) if l.strip()}
            with open(full, "w") as fout:
                for sig in sorted(old | set(lst)):
                    fout.write(sig + "\n")
        else:
            print("   inline sigs:", lst)


main()
