#!/bin/bash
# usage: confirm_seed.sh <id>   (worktree /tmp/mut/<id> with the change applied and _seed/ deliverables)
# Confirms: demo fails WITH the change, passes WITHOUT; stores the seed under /verif/seeded/<id>/.
id=$1; wt=/tmp/mut/$id; out=/verif/seeded/$id
mkdir -p $out
cd $wt || exit 2
git diff -- src > /dev/shm/seed-$id.diff
export PYTHONPATH=$wt/src PSYCLONE_CONFIG=$wt/config/psyclone.cfg
demo=$(ls _seed/demo*.py | head -1)
timeout 900 /venv/bin/python $demo > /dev/shm/seed-$id.with.log 2>&1; with=$?
git checkout -q -- src
timeout 900 /venv/bin/python $demo > /dev/shm/seed-$id.without.log 2>&1; without=$?
git apply /dev/shm/seed-$id.diff
cp /dev/shm/seed-$id.diff $out/patch.diff
cp $demo $out/demo.py
cp _seed/meta.json $out/meta.agent.json 2>/dev/null
echo "$id demo_exit_with_change=$with demo_exit_without_change=$without"
