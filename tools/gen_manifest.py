#!/venv/bin/python
"""Regenerates /verif/MANIFEST.json from the table below (kept valid at all times)."""
import json
import os
import sys

ROOT = os.path.dirname(os.path.dirname(os.path.abspath(__file__)))
sys.path.insert(0, ROOT)
from tools.manifest_table import CHECKS, NOT_APPLICABLE, ENGINES, NOTES  # noqa

props = [json.loads(l)["id"] for l in open(os.path.join(ROOT, "properties.jsonl"))]
checks = []
for pid in props:
    if pid not in CHECKS:
        continue
    ent = CHECKS[pid]
    checks.append({
        "property_id": pid,
        "quick_cmd": f"bin/check {pid} --tier quick",
        "thorough_cmd": f"bin/check {pid} --tier thorough",
        "evidence_file": f"/verif/evidence/{pid}.json",
        "replay_cmd_template": f"bin/check {pid} --replay {{path}}",
        "engine": ent.get("engine", "mc.runner"),
        "level_claimed": {"category": ent["level"], "text": ent["text"],
                          "design_ref": ent.get("design_ref", f"DESIGN.md §4 {pid}")},
        "level_note": ent["note"],
        "technique": ent["technique"],
    })
na = [{"property_id": p, "reason": NOT_APPLICABLE.get(
        p, "no check registered yet in this snapshot (machinery under construction; see DESIGN.md §9 build order)")}
      for p in props if p not in CHECKS]
manifest = {
    "version": 1,
    "setup_cmd": "bin/setup",
    "hooks": {
        "guard": "SVALAT_PSYCLONE_VERIF",
        "enable": "no guarded hook is needed: checks import psyclone from /repo/src (PYTHONPATH) and reach every seam through public APIs or module-namespace proxies installed by the harness",
        "baseline_off_cmd": "cd /repo && env -u SVALAT_PSYCLONE_VERIF /venv/bin/python -m pytest -ra -q -p no:cacheprovider --timeout=900 --continue-on-collection-errors",
        "source_commits": [],
        "add_only": True,
    },
    "engines": ENGINES,
    "checks": checks,
    "notes": NOTES,
    "not_applicable": na,
}
try:
    import jsonschema
    jsonschema.validate(manifest, json.load(open("/root/.vp/MANIFEST.schema.json")))
except ImportError:
    pass
with open(os.path.join(ROOT, "MANIFEST.json"), "w") as fout:
    json.dump(manifest, fout, indent=1)
    fout.write("\n")
print(f"MANIFEST.json: {len(checks)} checks, {len(na)} not_applicable")
