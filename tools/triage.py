#!/venv/bin/python
"""Development aid: summarise a VERIF_DUMP_VIOL file (group -> count, sample)."""
import collections
import json
import re
import sys

rows = [json.loads(l) for l in open(sys.argv[1])]
pat = sys.argv[2] if len(sys.argv) > 2 else None
groups = collections.defaultdict(list)
for row in rows:
    label = row["sig"].split("|")[0]
    label = re.sub(r"@.*", "", label)
    fam = row["sig"].split("|")[1].split(":")[0] if "|" in row["sig"] else ""
    groups[(row.get("group"), label, fam)].append(row)
for key in sorted(groups, key=str):
    if pat and pat not in str(key):
        continue
    lst = groups[key]
    print(f"{key}: {len(lst)} (known {sum(r['known'] for r in lst)})")
    if pat:
        for row in lst[: int(sys.argv[3]) if len(sys.argv) > 3 else 3]:
            print("    ", row["sig"], "::", row["msg"].split("\n")[0][:200])
