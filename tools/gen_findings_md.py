#!/venv/bin/python
"""Writes /verif/FINDINGS.md (human-readable view of known_findings.json)."""
import json, os
ROOT = os.path.dirname(os.path.dirname(os.path.abspath(__file__)))
k = json.load(open(os.path.join(ROOT, "known_findings.json")))
F = sorted(k["findings"], key=lambda f: (f["property"], f["status"], f["id"]))
out = ["# Genuine defects found by the checks (generated from known_findings.json)\n",
       "Open findings are printed by the checks as `KNOWN-FINDING:` lines and suppress exactly the",
       "listed signatures; fixed entries suppress nothing and name the repairing commit in /repo.\n",
       "## Fixed (one `fix:` commit each unless a commit repairs several)\n",
       "| Property | Finding | Commit | What failed |", "|---|---|---|---|"]
for f in F:
    if f["status"] == "fixed":
        out.append(f"| {f['property']} | {f['id']} | {f.get('commit','')} | {f['what'][:300].replace('|','/')} |")
out += ["\n## Open\n", "| Property | Finding | Signatures | What fails |", "|---|---|---|---|"]
for f in F:
    if f["status"] == "open":
        n = len(f.get("sigs", []))
        if f.get("sigs_file"):
            n += sum(1 for l in open(os.path.join(ROOT, f["sigs_file"])) if l.strip())
        out.append(f"| {f['property']} | {f['id']} | {n} | {f['what'][:400].replace('|','/')} |")
nf = sum(f["status"] == "fixed" for f in F); no = len(F) - nf
out.append(f"\n{nf} fixed, {no} open.\n")
open(os.path.join(ROOT, "FINDINGS.md"), "w").write("\n".join(out))
print(nf, "fixed", no, "open")
