                  program mod_reg
                    use read_kernel_data_mod, only : ReadKernelDataType
                    use compare_variables_mod, only : compare, compare_init, compare_summary
                    real*8 :: a
                    integer :: i
                    type(ReadKernelDataType) :: extract_psy_data
                    real*8 :: a_post

                    call extract_psy_data%OpenRead('mod', 'reg')
                    call extract_psy_data%ReadVariable('a', a)
                    call extract_psy_data%ReadVariable('i', i)
                    call extract_psy_data%ReadVariable('a_post', a_post)
                    call scal(a(i))
                    call compare_init(1)
                    call compare('a', a, a_post)
                    call compare_summary()

                  end program mod_reg
