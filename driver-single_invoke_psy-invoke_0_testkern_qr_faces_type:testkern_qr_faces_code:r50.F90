    program single_invoke_psy_invoke_0_testkern_qr_faces_typetestkern_qr_fa
      use read_kernel_data_mod, only : ReadKernelDataType
      use testkern_qr_faces_mod, only : testkern_qr_faces_code
      use constants_mod, only : i_def, l_def, r_bl, r_def, r_double, r_ncdf, r_second, r_single, r_solver, r_tran, r_um
      use compare_variables_mod, only : compare, compare_init, compare_summary
      integer(kind=i_def) :: loop0_start
      integer(kind=i_def) :: loop0_stop
      integer(kind=i_def) :: nlayers
      real(kind=r_def), allocatable, dimension(:) :: f1_data
      real(kind=r_def), allocatable, dimension(:) :: f2_data
      real(kind=r_def), allocatable, dimension(:) :: m1_data
      real(kind=r_def), allocatable, dimension(:) :: m2_data
      integer(kind=i_def) :: ndf_w1
      integer(kind=i_def) :: undf_w1
      integer(kind=i_def), allocatable, dimension(:,:) :: map_w1
      integer(kind=i_def) :: cell
      real(kind=r_def), allocatable, dimension(:,:,:,:) :: basis_w1_qr
      integer(kind=i_def) :: ndf_w2
      integer(kind=i_def) :: undf_w2
      integer(kind=i_def), allocatable, dimension(:,:) :: map_w2
      real(kind=r_def), allocatable, dimension(:,:,:,:) :: diff_basis_w2_qr
      integer(kind=i_def) :: ndf_w3
      integer(kind=i_def) :: undf_w3
      integer(kind=i_def), allocatable, dimension(:,:) :: map_w3
      real(kind=r_def), allocatable, dimension(:,:,:,:) :: basis_w3_qr
      real(kind=r_def), allocatable, dimension(:,:,:,:) :: diff_basis_w3_qr
      integer(kind=i_def) :: nfaces_qr
      integer(kind=i_def) :: np_xyz_qr
      real(kind=r_def), allocatable, dimension(:,:) :: weights_xyz_qr
      type(ReadKernelDataType) :: extract_psy_data
      integer(kind=i_def) :: cell_post
      real(kind=r_def), allocatable, dimension(:) :: f1_data_post

      call extract_psy_data%OpenRead('single_invoke_psy', 'invoke_0_testkern_qr_faces_type:testkern_qr_faces_code:r50')
      call extract_psy_data%ReadVariable('basis_w1_qr', basis_w1_qr)
      call extract_psy_data%ReadVariable('basis_w3_qr', basis_w3_qr)
      call extract_psy_data%ReadVariable('diff_basis_w2_qr', diff_basis_w2_qr)
      call extract_psy_data%ReadVariable('diff_basis_w3_qr', diff_basis_w3_qr)
      call extract_psy_data%ReadVariable('f1_data', f1_data)
      call extract_psy_data%ReadVariable('f2_data', f2_data)
      call extract_psy_data%ReadVariable('loop0_start', loop0_start)
      call extract_psy_data%ReadVariable('loop0_stop', loop0_stop)
      call extract_psy_data%ReadVariable('m1_data', m1_data)
      call extract_psy_data%ReadVariable('m2_data', m2_data)
      call extract_psy_data%ReadVariable('map_w1', map_w1)
      call extract_psy_data%ReadVariable('map_w2', map_w2)
      call extract_psy_data%ReadVariable('map_w3', map_w3)
      call extract_psy_data%ReadVariable('ndf_w1', ndf_w1)
      call extract_psy_data%ReadVariable('ndf_w2', ndf_w2)
      call extract_psy_data%ReadVariable('ndf_w3', ndf_w3)
      call extract_psy_data%ReadVariable('nfaces_qr', nfaces_qr)
      call extract_psy_data%ReadVariable('nlayers', nlayers)
      call extract_psy_data%ReadVariable('np_xyz_qr', np_xyz_qr)
      call extract_psy_data%ReadVariable('undf_w1', undf_w1)
      call extract_psy_data%ReadVariable('undf_w2', undf_w2)
      call extract_psy_data%ReadVariable('undf_w3', undf_w3)
      call extract_psy_data%ReadVariable('weights_xyz_qr', weights_xyz_qr)
      call extract_psy_data%ReadVariable('cell_post', cell_post)
      cell = 0
      call extract_psy_data%ReadVariable('f1_data_post', f1_data_post)
      do cell = loop0_start, loop0_stop, 1
        call testkern_qr_faces_code(nlayers, f1_data, f2_data, m1_data, m2_data, ndf_w1, undf_w1, map_w1(:,cell), basis_w1_qr, &
&ndf_w2, undf_w2, map_w2(:,cell), diff_basis_w2_qr, ndf_w3, undf_w3, map_w3(:,cell), basis_w3_qr, diff_basis_w3_qr, nfaces_qr, &
&np_xyz_qr, weights_xyz_qr)
      enddo
      call compare_init(2)
      call compare('cell', cell, cell_post)
      call compare('f1_data', f1_data, f1_data_post)
      call compare_summary()

    end program single_invoke_psy_invoke_0_testkern_qr_faces_typetestkern_qr_fa
